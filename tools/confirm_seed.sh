#!/bin/bash
# usage: confirm_seed.sh <seed-dir containing patch.diff demo.sh>   (confirms in scratch worktrees, removes them)
# prints: BUILD ok/fail, TESTS ok/fail, DEMO_WITH rc, DEMO_WITHOUT rc
set -u
d=$(readlink -f "$1")
w=/var/tmp/seedconfirm.$$
rm -rf $w; git -C /repo worktree add --detach $w HEAD >/dev/null 2>&1 || exit 3
export TMPDIR=$w.tmp; mkdir -p $TMPDIR
res=""
build() { (cd $w && make -f Makefile.gnu -j8 nano_virt nano_vm nano_cop nano_vmd bin/nanoc_c >$w.build.log 2>&1); }
build; b0=$?
(cd $w && timeout 600 bash $d/demo.sh $w >$w.demo0.log 2>&1); d0=$?
(cd $w && git apply $d/patch.diff) || { echo "APPLY failed"; }
build; b1=$?
(cd $w && make -f Makefile.gnu test-nanovirt >$w.test.log 2>&1); t1=$?
grep -q " 0 failed" $w.test.log || t1=99
(cd $w && timeout 600 bash $d/demo.sh $w >$w.demo1.log 2>&1); d1=$?
echo "BUILD_PRISTINE=$b0 DEMO_WITHOUT=$d0 BUILD_PATCHED=$b1 TESTS_PATCHED=$t1 DEMO_WITH=$d1"
tail -2 $w.demo1.log | cut -c1-300
git -C /repo worktree remove --force $w; rm -rf $w.* $TMPDIR
