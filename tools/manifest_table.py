HOOK_COMMITS = ['0398903']
NA = {}
MC = 'model_checking'
chk('C08', MC,
    'Bounded symbolic model checking (CBMC) of one out-of-range/in-range access on each engine: the real vm_core_execute for the array/struct/union/tuple opcodes, every accessor of runtime/dyn_array.c, and eval.c\'s array builtins, with the index ranging over ALL int64 values and array lengths 0..4; asserts that an out-of-range operation never returns normally and changes nothing.',
    'Arrays up to length 4; native assert() and evaluator exit() are taken as process termination; generated-C wrappers are thin calls (read, not encoded); whole programs are covered by the program family of C01/C04 only.',
    'CBMC bounded model checking of real VM step / dyn_array / evaluator builtins, symbolic index', 'DESIGN.md 4/C08')
chk('C10', MC,
    'CBMC on the real nvm_format.c: for each module shape (built through the public nvm_add_* API) and ALL contents, deserialize(serialize(m)) == m field by field and serialize is idempotent byte for byte; and the real nano_vm run_standalone and nano_virt --run drivers derive the same exit status (main\'s int result, 1 on a run-time error) from every VM outcome.',
    'Module shapes bounded (<=3 strings, <=2 functions/imports/debug entries, <=6 code bytes); CRC modelled as uninterpreted function; the generated wrapper executable and stdout equality are outside (evidence outside_claim).',
    'CBMC bounded model checking of serialize/deserialize round trip, symbolic contents', 'DESIGN.md 4/C10')
chk('C11', MC,
    'Bounded symbolic model checking (CBMC) of the real isa.c: for each of the 256 opcode bytes, decode(encode(i))=i and encode(decode(b))=b, truncation and undefined-byte refusal, no stray writes, for ALL operand payloads, buffer contents and lengths 0..32. The instruction space is finite, so this is complete for the binary codec.',
    'Opcode set = NanoOpcode enum of isa.h; operand widths per isa.h comments. The textual assemble/disassemble round trip is covered only as far as stated in evidence (printf/strtol have no solver semantics).',
    'CBMC bounded model checking of isa_encode/isa_decode per opcode byte, symbolic operands', 'DESIGN.md 4/C11')
chk('C12', MC,
    'CBMC on the real nvm_format.c: wrong magic/version/stored checksum refused for every xor mask; writer stores crc of the final body; CRC-32 detection of every burst <= 32 bits in a body of ANY length by induction from lemmas proved on the real nvm_crc32 (table identity, GF(2)-linearity, non-zero difference state for all 2^32-1 bursts at all bit offsets, injective per-byte update, definitional equality up to the length bound); every truncation length and appended tail refused structurally; accepted => all sections inside the file and consumed exactly.',
    'Structural jobs use an uninterpreted CRC (any value); file shapes bounded (<= 95 bytes); the induction over body length is a pen-and-paper two-line argument over solver-proved lemmas (written in evidence.explanation).',
    'CBMC bounded model checking + solver-proved CRC algebra lemmas', 'DESIGN.md 4/C12')
chk('C13', MC,
    'CBMC on the real loader (arbitrary files incl. well-checksummed hostile ones), verifier (memory safety + meaning of acceptance) and VM (every opcode, one instruction from a constructed state incl. ill-typed operands and hostile frame bases): no out-of-bounds/use-after-free/double free/division overflow, bounded termination, trap or invariant-satisfying post-state.',
    'One inductive VM step, not multi-instruction runs; state shapes bounded (stack<=8, 2-field containers, arrays len 2); wrap-around of + - * on language ints assumed (gcc -O0); stack growth by realloc outside.',
    'CBMC bounded model checking: arbitrary-file loader, verifier meaning, per-opcode VM step', 'DESIGN.md 4/C13')
chk('C14', MC,
    'CBMC on the real vm.c/heap.c: for every opcode and operand-kind tuple (incl. aliasing and containers of strings), one instruction from any state satisfying the reference-count invariant preserves it: nothing referenced is freed, ref_count >= (and, for non-trapping steps, ==) in-degree + hidden references, nothing freed twice, new reachable objects are live.',
    'One inductive step per opcode from constructed pre-states (<= 8 objects, nesting container->string); free() replaced by a ghost recorder; the whole-program churn bound is decided only through the per-instruction no-leak equality.',
    'CBMC bounded model checking of one VM step with a ghost-free reference audit', 'DESIGN.md 4/C14')
HOOK_COMMITS = ['0398903', 'a2e00e4']
FE = 'fault_enumeration'
TV = 'translation_validation'
chk('C01', TV,
    'Program-level translation validation with a solver: for each program of a generated family (every int/bool operator, nesting, infix spelling, evaluation order and short circuit with printing operands, if/else, while with break/continue, block shadowing, calls, string literals, enums, globals) the C emitted by the real nanoc and the bytecode emitted by the real nano_virt are executed symbolically side by side - the bytecode by the real interpreter, one instruction per step under a CFG-specialised driver - for ALL argument values; return value and output trace must agree.',
    'Bounded to the family (47 programs in quick) and to <= 3 loop iterations; for-in-range, recursion, arrays, structs, tuples gave no verdict and are outside; printf modelled as a piece trace; + - * wrap assumed on the native side; 64-bit * / % equalities via exported SMT2 (z3 + cvc5).',
    'translation validation: generated C vs real interpreter on generated bytecode, symbolic arguments (CBMC; SMT2 export for * / %)', 'DESIGN.md 3.2, 10.8')
chk('C04', TV,
    'On the same generated family: every program the front end accepts gets C that the C compiler accepts (observed on the real nanoc), bytecode that the real verifier accepts (nvm_verify executed under CBMC on the generated module) and, for ALL argument values, a NanoVM run that never ends in a type / undefined / decode / stack error (only documented faults).',
    'Bounded to the family; the type checker\'s acceptance decision itself is taken from the real tools, not symbolically executed.',
    'translation validation family + solver-checked absence of internal VM errors for all arguments', 'DESIGN.md 3.2, 10.8')
chk('C02', MC,
    'Operator kernels only: one real NanoVM instruction per arithmetic/comparison/logic opcode on ALL operand pairs (2^128 int pairs, all float bit patterns) compared with the specified operator (64-bit wrap, truncating total division, mathematical order). + - compare logic via SAT; * / % via CBMC-exported SMT2 decided by z3 and cvc5.',
    'The kernels decide the NanoVM engine against the reference operators; the native engine is tied to the NanoVM by the C01 translation-validation family (same operators, evaluation order, short circuit, shadowing for all arguments). The Coq relation (floor vs truncating division) is not decided.',
    'CBMC one-instruction kernels vs reference operator; SMT2 export + z3/cvc5 for * / %', 'DESIGN.md 4/C02, 10')
chk('C05', MC,
    'Driver gating plus three rule kernels: the real compile_file (nanoc) and nano_virt main run with every phase outcome symbolic; a failed lexer/parser/import/type-check phase gives non-zero status and no code generation, no file opened for writing, no cc/system, no VM run, for every combination of outcomes and the four command-line modes.',
    'Which programs the type checker rejects is decided only for three rule kernels on the real typechecker.c check_statement (external call outside an unsafe context incl. after unsafe blocks that return or nest; return of the wrong type over int/bool/float/string/void; non-bool assert/if condition), on literal operands; all other rules of the catalogue are NOT decided. typechecker.c is compiled with -Dunion=struct.',
    'CBMC on the real drivers with symbolic phase outcomes (environment stubs + ghost flags) + rule kernels on the real type checker', 'DESIGN.md 4/C05, 10.9')
chk('C06', MC,
    'Two halves on real code: (a) driver gating - in the real compile_file, a false result of the shadow-test phase gives non-zero status before transpilation, with no file written and no compiler run, a true result reaches transpilation, for every combination of the other phase outcomes; (b) the shadow runner - the real eval.c run_shadow_tests / eval_statement executes 1-2 shadow blocks of 1-2 assert statements (optionally nested in if, optionally after a for/while loop that breaks or continues) whose outcomes are symbolic, and returns true iff every assertion held, for every outcome vector. Counterexamples are replayed on the real nanoc.',
    'Assert conditions are literals with symbolic truth values (condition evaluation is C03); user calls/let/set in shadow bodies, extern skipping, the missing-shadow diagnostic and the JSON report are outside. eval.c is compiled with -Dunion=struct (CBMC does not track pointers stored in unions).',
    'CBMC on the real nanoc driver with symbolic phase outcomes + on the real shadow runner with symbolic assertion outcomes', 'DESIGN.md 4/C06, 10.9')
chk('C15', MC,
    'CBMC on the real cop_protocol.c + heap.c: every transferable value shape (scalars, strings, arrays incl. nested) with ALL contents survives serialize->deserialize bit for bit through a buffer of symbolic size; too-small buffers and truncated encodings are refused; read_all/write_all deliver exactly the bytes for every chunking.',
    'Strings <= 5 bytes, arrays <= 3 elements; the request path (8 KiB request buffer) and real FFI libraries are not decided (see evidence outside_claim).',
    'CBMC bounded model checking of the wire codec and transport loops, symbolic payload', 'DESIGN.md 4/C15')
chk('C16', FE,
    'Fault enumeration by solver: the real VM-side protocol code (vm_ffi_call_cop, cop_ensure, cop_start/stop, cop_send/recv) runs against an arbitrary peer: every read/write/waitpid/fork/pipe outcome and every reply byte is a solver variable; asserts memory safety, no fatal SIGPIPE, no double close, no endless wait, no un-reaped child, all descriptors closed; plus the value decoder on arbitrary/hostile bytes.',
    'One external call + shutdown in quick (two in thorough); process table and signals are ghost state in the stubs; decoder inputs <= 17 bytes with concrete structure bytes.',
    'CBMC with nondeterministic POSIX stubs (fault schedule symbolic) + decoder robustness kernels', 'DESIGN.md 4/C16')
chk('C18', FE,
    'Fault enumeration by solver: one whole daemon client session (real client_thread + vmd_protocol.c) under an arbitrary client and kernel (all header bytes, EOF/reset/short reads at every point, write failures while printing, every loader/verifier/VM outcome) and the real accept loop under every poll/accept/pthread_create outcome: memory-safe, leak-free, descriptor closed once, counter restored, module executed only after verification, loop survives accept failures.',
    'Single session per query (no concurrency); stdio buffering not modelled; loader/verifier/VM are stubs here (their own subjects are C12/C13).',
    'CBMC with nondeterministic POSIX stubs over the real session / accept-loop code', 'DESIGN.md 4/C18')
chk('C19', MC,
    'Kernels only: self-composition under CBMC shows isa_encode (every opcode) and nvm_serialize (all module shapes) produce byte-identical output for inputs that agree on semantic content and differ arbitrarily in unused bytes, padding, stale bookkeeping fields and buffer contents; no clock/env/pid source is consulted. On the generated-C side: the struct/union definition sort of transpiler.c emits the same order in two runs whose fresh heap memory differs arbitrarily (every dependency graph on <= 3 structs + 1 union; thorough 4 + 2), counterexamples replayed on the real nanoc_c under glibc malloc.perturb.',
    'transpile_to_c / codegen_compile as wholes (module paths, hash order, other scratch memory there) are NOT decided.',
    'CBMC self-composition (two runs, semantically equal inputs, outputs compared)', 'DESIGN.md 4/C19')
chk('C20', MC,
    'CBMC on the real runtime/dyn_array.c: one operation of every accessor/mutator (all element kinds incl. structs) from ANY valid array (symbolic length 0..capacity incl. the full array that must grow, all contents, all indices/values): memory-safe incl. size-arithmetic overflow, invariant preserved, result equals the abstract list operation; the same inductive step for the string-builder helpers that nanoc emits into every generated C file (text taken from the real nanoc output).',
    'Inductive single step (covers histories of any length given the invariant). gc.c (no verdict), nl_string.c formatting and generated programs are not decided.',
    'CBMC bounded model checking, inductive step over the dyn_array representation invariant', 'DESIGN.md 4/C20')
chk('C03', MC,
    'Evaluator kernels only: CBMC on the real eval.c shows that eval_prefix_op on literal operands (13 binary + 2 unary operators + bool equality, all int64 pairs / truth values) and eval_call for 13 builtins (char_at, is_digit/alpha/alnum/whitespace/upper/lower, digit_value, char_to_lower/upper, abs, min, max; all int64 arguments, strings of arbitrary bytes) return exactly what the native backend computes: C operators with 64-bit wrap and, for builtins, the helper text the real nanoc wrote into generated C, linked as the reference. Counterexamples are replayed on the real nanoc (a shadow test asserting the native value must pass).',
    'Single operators and single builtin calls on literal arguments only; statements, user calls, scoping, string construction, arrays, hashmaps and printing of the evaluator are NOT decided; the VM side of the three-way agreement is covered against native by C01/C02.',
    'CBMC differential kernels: real evaluator vs. real generated-C helpers, symbolic arguments; * / % by z3 + cvc5 on the exported formula', 'DESIGN.md 10.9')
NA = {
 'C07': 'parser.c under CBMC: parse_expression on the fully CONCRETE token stream `a + b` (and its prefix spelling) gave no verdict in 300 s (attempts/parser_eq.c: parse_primary explores the type/generic parsers at every identifier); parse_program on 3 symbolic tokens did not finish symbolic execution in 5 min (design probe). The operator semantics of infix spellings on both backends are covered by members of the C01 family (infix_chain, mod_infix, cmp_chain_infix).',
 'C09': 'tokenize() on a single symbolic byte: symbolic execution finishes only with the main loop cut at 3 iterations and the SAT query then gave no verdict in 300 s (value sets of the token array explode; attempts/lexer_total.c); parser/type checker totality not attempted (see C07).',
 'C17': 'The quantifier is over thread interleavings of whole VM sessions and data races: CBMC cannot carry two interpreter sessions; no bounded encoding within reach. The sequential server-side session path (framing, flushing of an unterminated last line before the exit frame, verification before execution, cleanup) is decided under C18 and catches the seeded change C17/b; a client-side reassembly harness (attempts/vmd_client_rx.c) gave no verdict in 150 s as soon as one output frame is present.',
}
