HOOK_COMMITS = ['0398903']
NA = {}
MC = 'model_checking'
chk('C08', MC,
    'Bounded symbolic model checking (CBMC) of one out-of-range/in-range access on each engine: the real vm_core_execute for the array/struct/union/tuple opcodes, every accessor of runtime/dyn_array.c, and eval.c\'s array builtins, with the index ranging over ALL int64 values and array lengths 0..4; asserts that an out-of-range operation never returns normally and changes nothing.',
    'Arrays up to length 4; native assert() and evaluator exit() are taken as process termination; generated-C wrappers are thin calls (read, not encoded); whole programs are covered by the program family of C01/C04 only.',
    'CBMC bounded model checking of real VM step / dyn_array / evaluator builtins, symbolic index', 'DESIGN.md 4/C08')
chk('C10', MC,
    'CBMC on the real nvm_format.c: for each module shape (built through the public nvm_add_* API) and ALL contents, deserialize(serialize(m)) == m field by field and serialize is idempotent byte for byte.',
    'Module shapes bounded (<=3 strings, <=2 functions/imports/debug entries, <=6 code bytes); CRC modelled as uninterpreted function; exit status of the three runners: see evidence outside_claim.',
    'CBMC bounded model checking of serialize/deserialize round trip, symbolic contents', 'DESIGN.md 4/C10')
chk('C11', MC,
    'Bounded symbolic model checking (CBMC) of the real isa.c: for each of the 256 opcode bytes, decode(encode(i))=i and encode(decode(b))=b, truncation and undefined-byte refusal, no stray writes, for ALL operand payloads, buffer contents and lengths 0..32. The instruction space is finite, so this is complete for the binary codec.',
    'Opcode set = NanoOpcode enum of isa.h; operand widths per isa.h comments. The textual assemble/disassemble round trip is covered only as far as stated in evidence (printf/strtol have no solver semantics).',
    'CBMC bounded model checking of isa_encode/isa_decode per opcode byte, symbolic operands', 'DESIGN.md 4/C11')
chk('C12', MC,
    'CBMC on the real nvm_format.c: wrong magic/version/stored checksum refused for every xor mask; writer stores crc of the final body; CRC-32 detection of every burst <= 32 bits in a body of ANY length by induction from lemmas proved on the real nvm_crc32 (table identity, GF(2)-linearity, non-zero difference state for all 2^32-1 bursts at all bit offsets, injective per-byte update, definitional equality up to the length bound); every truncation length and appended tail refused structurally; accepted => all sections inside the file and consumed exactly.',
    'Structural jobs use an uninterpreted CRC (any value); file shapes bounded (<= 95 bytes); the induction over body length is a pen-and-paper two-line argument over solver-proved lemmas (written in evidence.explanation).',
    'CBMC bounded model checking + solver-proved CRC algebra lemmas', 'DESIGN.md 4/C12')
chk('C13', MC,
    'CBMC on the real loader (arbitrary files incl. well-checksummed hostile ones), verifier (memory safety + meaning of acceptance) and VM (every opcode, one instruction from a constructed state incl. ill-typed operands and hostile frame bases): no out-of-bounds/use-after-free/double free/division overflow, bounded termination, trap or invariant-satisfying post-state.',
    'One inductive VM step, not multi-instruction runs; state shapes bounded (stack<=8, 2-field containers, arrays len 2); wrap-around of + - * on language ints assumed (gcc -O0); stack growth by realloc outside.',
    'CBMC bounded model checking: arbitrary-file loader, verifier meaning, per-opcode VM step', 'DESIGN.md 4/C13')
chk('C14', MC,
    'CBMC on the real vm.c/heap.c: for every opcode and operand-kind tuple (incl. aliasing and containers of strings), one instruction from any state satisfying the reference-count invariant preserves it: nothing referenced is freed, ref_count >= (and, for non-trapping steps, ==) in-degree + hidden references, nothing freed twice, new reachable objects are live.',
    'One inductive step per opcode from constructed pre-states (<= 8 objects, nesting container->string); free() replaced by a ghost recorder; the whole-program churn bound is decided only through the per-instruction no-leak equality.',
    'CBMC bounded model checking of one VM step with a ghost-free reference audit', 'DESIGN.md 4/C14')
