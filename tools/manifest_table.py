HOOK_COMMITS = []
NA = {}
chk('C11', 'model_checking',
    'Bounded symbolic model checking (CBMC) of the real isa.c: for each of the 256 opcode bytes, decode(encode(i))=i and encode(decode(b))=b, truncation and undefined-byte refusal, no stray writes, for ALL operand payloads, buffer contents and lengths 0..32. The instruction space is finite, so this is complete for the binary codec.',
    'Opcode set = NanoOpcode enum of isa.h; operand widths per isa.h comments. The textual assemble/disassemble round trip is covered only as far as stated in evidence (printf/strtol have no solver semantics).',
    'CBMC bounded model checking of isa_encode/isa_decode per opcode byte, symbolic operands', 'DESIGN.md 4/C11')
