#!/bin/bash
# import_seeds.sh: confirm every /tmp/seedout/<ID>/<x> on the current /repo HEAD and copy it to /verif/seeded/<ID>_<x>
cd /verif
for d in /tmp/seedout/C*/[ab]; do
  [ -f $d/patch.diff ] || continue
  id=$(basename $(dirname $d)); x=$(basename $d); out=seeded/${id}_${x}
  mkdir -p $out
  res=$(tools/confirm_seed.sh $d 2>&1 | head -1)
  cp $d/patch.diff $d/demo.sh $out/ 2>/dev/null; cp $d/README.md $out/README.md 2>/dev/null
  echo "$id/$x $res" | tee -a seeded/confirm.log
  python3 - "$id" "$x" "$res" "$out" <<'PY'
import sys, json, re
pid, x, res, out = sys.argv[1:5]
kv = dict(re.findall(r'(\w+)=(\S+)', res))
needs = ''
try:
    txt = open(out + '/README.md').read()
    needs = ' '.join(txt.split())[:600]
except Exception: pass
json.dump({'property': pid, 'variant': x, 'source': 'independent sub-agent given only the property text and a scratch worktree',
           'needs_to_manifest': needs, 'confirmed_on_repo_head': kv,
           'ran': 'tools/confirm_seed.sh: scratch worktree of /repo HEAD; build; demo without patch; git apply; build; make -f Makefile.gnu test-nanovirt; demo with patch'},
          open(out + '/meta.json', 'w'), indent=1)
PY
done
