#!/usr/bin/env python3
"""Writes MANIFEST.json from the table below (kept in one place so it is always valid)."""
import json, os
V = os.path.dirname(os.path.dirname(os.path.abspath(__file__)))
ALL = ['C%02d' % i for i in range(1, 21)]
CHECKS = {}
def chk(pid, cat, text, note, tech, design, thorough=True):
    CHECKS[pid] = {
        'property_id': pid,
        'quick_cmd': 'bin/check %s --tier quick' % pid,
        'evidence_file': 'evidence/%s.json' % pid,
        'level_claimed': {'category': cat, 'text': text, 'design_ref': design},
        'level_note': note, 'technique': tech, 'engine': 'cbmc-harness',
        'replay_cmd_template': 'cat {path}/cmd.txt {path}/output.txt',
    }
    if thorough:
        CHECKS[pid]['thorough_cmd'] = 'bin/check %s --tier thorough' % pid

exec(open(os.path.join(V, 'tools', 'manifest_table.py')).read())

man = {
    'version': 1,
    'setup_cmd': 'true',
    'hooks': {'guard': 'NANOLANG_VERIF', 'enable': 'checks compile /repo sources with goto-cc/gcc -DNANOLANG_VERIF (no build of /repo is modified)',
              'baseline_off_cmd': 'cd /repo && make -f Makefile.gnu test-nanovirt', 'source_commits': HOOK_COMMITS, 'add_only': True},
    'engines': [{'name': 'cbmc-harness', 'path': 'lib/vlib.py', 'serves_properties': sorted(CHECKS),
                 'kind_free_text': 'bounded symbolic execution of the repository C sources with CBMC 6.11 (SAT) and z3/cvc5 on exported SMT2; one query per concrete shape, payload symbolic; native ASan/UBSan replay of counterexamples'}],
    'checks': [CHECKS[k] for k in sorted(CHECKS)],
    'not_applicable': [{'property_id': p, 'reason': NA.get(p, 'check not built yet (work in progress); see DESIGN.md section 4')} for p in ALL if p not in CHECKS],
    'notes': 'See DESIGN.md. Every verdict is bounded: holds for all values of the symbolic inputs within the stated bounds (evidence/<id>.json: bounds, outside_claim).',
}
json.dump(man, open(os.path.join(V, 'MANIFEST.json'), 'w'), indent=1)
print('checks:', sorted(CHECKS), 'n/a:', [p for p in ALL if p not in CHECKS])
