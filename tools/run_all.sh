#!/bin/bash
# run every claimed check (tier $1, default quick) on /repo as it is; prints one line per check
tier=${1:-quick}
cd /verif
for id in $(python3 -c "import json;print(' '.join(c['property_id'] for c in json.load(open('MANIFEST.json'))['checks']))"); do
  s=$(date +%s); out=$(bin/check $id --tier $tier 2>/dev/null; echo "__rc=$?"); rc=$(echo "$out" | sed -n 's/^__rc=//p'); out=$(echo "$out" | grep -v "^\[\|^__rc=")
  echo "$id rc=$rc $(( $(date +%s) - s ))s :: $(echo "$out" | grep SUMMARY)"
  echo "$out" | grep "VIOLATION\|INCONCLUSIVE\|MISMATCH\|KNOWN-FINDING" | head -5
done
