#!/bin/bash
# Apply every seeded change that a check is recorded to catch, run that check (quick), undo; write seeded/results.txt.
# usage: tools/run_seeds.sh [all]   (with "all": also run the property's check for seeds recorded as NOT detected)
cd /verif
# work on a scratch clone so that /repo itself is never modified (other runs may be using it)
R=/var/tmp/repo_seeds.$$; rm -rf $R; git clone -q /repo $R || exit 3
export VERIF_REPO=$R
out=seeded/results.txt; : > $out
for d in seeded/C*_?; do
  id=$(basename $d); pid=${id%_*}
  chk=$(python3 -c "import json,re;m=json.load(open('$d/meta.json'));t=m.get('detected_by','');r=re.match(r'(C\d+) check',t);print(r.group(1) if r else '')")
  [ -z "$chk" ] && { [ "$1" = "all" ] && chk=$pid || { echo "$id not-detected (recorded)" >> $out; continue; }; }
  grep -q "\"$chk\"" MANIFEST.json || { echo "$id no-check-for-$chk" >> $out; continue; }
  git -C $R apply $PWD/$d/patch.diff 2>/dev/null || { echo "$id patch-does-not-apply" >> $out; continue; }
  res=$(bin/check $chk --tier quick 2>/dev/null | grep -v "^\[" | grep "^VIOLATION\|^SUMMARY" | head -3 | tr '\n' ' ' | cut -c1-300)
  rc=$?
  git -C $R checkout -- .
  if echo "$res" | grep -q "VIOLATION"; then v=CAUGHT; else v=MISSED; fi
  echo "$id $chk $v :: $res" >> $out
done
rm -rf $R
