/* CBMC-only model of memset for isa.c: isa_decode() clears its DecodedInstruction with memset(); CBMC's
 * byte-wise memset model makes every later field read (instr.opcode!) a non-constant byte_extract, so the
 * VM's and the verifier's `switch (instr.opcode)` would be explored for all opcodes.  Clearing the struct by
 * assigning a zero-initialised struct is semantically identical (padding aside, which is never read) and keeps
 * CBMC field-sensitive.  Any other memset call falls back to the byte loop. */
#ifndef ISA_MEMSET_H
#define ISA_MEMSET_H
#if !defined(REPLAY)
#include <stddef.h>
#include "isa.h"
static inline void *verif_isa_memset(void *p, int c, size_t n) {
    if (c == 0 && n == sizeof(DecodedInstruction)) { DecodedInstruction z = {0}; *(DecodedInstruction *)p = z; return p; }
    unsigned char *b = p; for (size_t i = 0; i < n; i++) b[i] = (unsigned char)c; return p;
}
#define memset(p, c, n) verif_isa_memset(p, c, n)
#endif
#endif
