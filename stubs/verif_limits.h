/* Included by src/nanovm/vm.h only under -DNANOLANG_VERIF: small VM limits for bounded checking.
 * A harness may predefine VERIF_KEEP_VM_LIMITS to keep the production values. */
#ifndef VERIF_KEEP_VM_LIMITS
#undef VM_STACK_INITIAL
#undef VM_MAX_FRAMES
#undef VM_MAX_GLOBALS
#ifndef VERIF_VM_STACK
#define VERIF_VM_STACK 16
#endif
#ifndef VERIF_VM_FRAMES
#define VERIF_VM_FRAMES 4
#endif
#ifndef VERIF_VM_GLOBALS
#define VERIF_VM_GLOBALS 4
#endif
#define VM_STACK_INITIAL VERIF_VM_STACK
#define VM_MAX_FRAMES VERIF_VM_FRAMES
#define VM_MAX_GLOBALS VERIF_VM_GLOBALS
#endif
