/* Harness vocabulary shared by the CBMC build and the native replay build (-DREPLAY). */
#ifndef VERIF_H
#define VERIF_H
#include <stdint.h>
#include <stddef.h>
#include <string.h>
#ifdef REPLAY
void replay_get(const char *name, void *p, size_t elem, size_t n);
void replay_fail(const char *msg);
void replay_assume_fail(const char *msg);
#define ND(T, name) T name; replay_get(#name, &name, sizeof(T), 1)
#define ND_ARR(T, name, N) T name[N]; replay_get(#name, name, sizeof(T), N)
#define ND_GLOBAL(name) replay_get(#name, &name, sizeof(name), 1)
#define ND_GLOBAL_ARR(name, T, N) replay_get(#name, name, sizeof(T), N)
#define ASSUME(c) do { if (!(c)) replay_assume_fail(#c); } while (0)
#define CHECK(c, msg) do { if (!(c)) replay_fail(msg); } while (0)
#define WITNESS(msg) ((void)0)
#define __CPROVER_assume(c) ASSUME(c)
#define __CPROVER_assert(c, m) CHECK(c, m)
#else
#define ND(T, name) T name
#define ND_ARR(T, name, N) T name[N]
#define ND_GLOBAL(name) do { __typeof__(name) nd_tmp_##name; name = nd_tmp_##name; } while (0)
#define ND_GLOBAL_ARR(name, T, N) do { T nd_tmp_##name[N]; for (unsigned nd_i = 0; nd_i < (N); nd_i++) name[nd_i] = nd_tmp_##name[nd_i]; } while (0)
#define ASSUME(c) __CPROVER_assume(c)
#define CHECK(c, msg) __CPROVER_assert((c), msg)
#define WITNESS(msg) __CPROVER_assert(0, "WITNESS: " msg)
#endif
#endif
