/* Native replay only: the two FFI entry points vm.c references (unreachable from one core instruction). */
#include <stdbool.h>
#include <stdlib.h>
#include <stdint.h>
bool vm_ffi_call(const void *m, uint32_t i, void *a, int n, void *r, void *h, char *e, size_t es) { (void)m;(void)i;(void)a;(void)n;(void)r;(void)h;(void)e;(void)es; abort(); }
bool vm_ffi_call_cop(void *vm, const void *m, uint32_t i, void *a, int n, void *r, char *e, size_t es) { (void)vm;(void)m;(void)i;(void)a;(void)n;(void)r;(void)e;(void)es; abort(); }
