/* Stub <assert.h> for the repository's own assert(): the documented native fault (abort).
 * Under CBMC the path ends (the process would have aborted); a ghost flag records it. */
#ifndef VERIF_ASSERT_H
#define VERIF_ASSERT_H
extern int verif_abort_flag;
#ifdef REPLAY
#include <stdio.h>
#include <stdlib.h>
#define assert(c) do { if (!(c)) { fprintf(stderr, "REPLAY: repository assert fired (documented abort): %s\n", #c); exit(0); } } while (0)
#else
#define assert(c) do { if (!(c)) { verif_abort_flag = 1; __CPROVER_assume(0); } } while (0)
#endif
#endif
