/* Recording model of the printf family for translation validation (CBMC only).
 * Output is flattened into a trace of pieces: a literal character, or a numeric conversion with its 64-bit
 * argument ('d' for every integer conversion, 'g' for every floating conversion: the two backends use the same
 * libc, so equal pieces => equal bytes).  %s is expanded into the string's characters (bounded).  Two traces are
 * kept; g_tr selects the one being written. */
#ifndef FMT_TRACE_H
#define FMT_TRACE_H
#include <stdarg.h>
#include <stdint.h>
#include <stdio.h>
#ifndef TR_MAX
#define TR_MAX 24
#endif
#define STR_MAX 12
typedef struct { int n; int overflow; char kind[TR_MAX]; uint64_t val[TR_MAX]; } FmtTrace;
/* stream identity must be decidable for the solver: give stdout / stderr distinct concrete objects */
static struct { int tag; } tr_out_obj, tr_err_obj;
FILE *stdout = (FILE *)&tr_out_obj;
FILE *stderr = (FILE *)&tr_err_obj;
static FmtTrace g_trace[2];
static int g_tr;
static void tr_put(char kind, uint64_t v) {
    FmtTrace *t = &g_trace[g_tr];
    if (t->n < TR_MAX) { t->kind[t->n] = kind; t->val[t->n] = v; t->n++; } else t->overflow = 1;
}
static void tr_str(const char *s) {
    if (!s) { tr_put('c', '('); return; }
    for (int i = 0; i < STR_MAX; i++) { if (!s[i]) return; tr_put('c', (unsigned char)s[i]); }
    g_trace[g_tr].overflow = 1;
}
static int tr_vformat(const char *f, va_list ap) {
    for (int i = 0; i < 32 && f[i]; i++) {
        if (f[i] != '%') { tr_put('c', (unsigned char)f[i]); continue; }
        i++;
        int longs = 0;
        while (f[i] == '.' || (f[i] >= '0' && f[i] <= '9') || f[i] == 'l' || f[i] == 'z' || f[i] == '-') { if (f[i] == 'l') longs++; i++; }
        switch (f[i]) {
        case 'd': case 'i': tr_put('d', longs >= 1 ? (uint64_t)va_arg(ap, long long) : (uint64_t)(int64_t)va_arg(ap, int)); break;
        case 'u': case 'x': tr_put('d', longs >= 1 ? (uint64_t)va_arg(ap, unsigned long long) : (uint64_t)va_arg(ap, unsigned)); break;
        case 'c': tr_put('c', (unsigned char)va_arg(ap, int)); break;
        case 's': tr_str(va_arg(ap, const char *)); break;
        case 'f': case 'g': case 'e': { double d = va_arg(ap, double); uint64_t b; __builtin_memcpy(&b, &d, 8); tr_put(f[i] == 'f' ? 'f' : 'g', b); break; }
        case 'p': tr_put('p', 0); (void)va_arg(ap, void *); break;
        case '%': tr_put('c', '%'); break;
        default: g_trace[g_tr].overflow = 1; break;
        }
    }
    return 0;
}
int printf(const char *f, ...) { va_list ap; va_start(ap, f); tr_vformat(f, ap); va_end(ap); return 0; }
int fprintf(FILE *o, const char *f, ...) { if (o == stderr) return 0; va_list ap; va_start(ap, f); tr_vformat(f, ap); va_end(ap); return 0; }
int puts(const char *s) { tr_str(s); tr_put('c', '\n'); return 0; }
int putchar(int c) { tr_put('c', (unsigned char)c); return c; }
int fputc(int c, FILE *o) { if (o != stderr) tr_put('c', (unsigned char)c); return c; }
int fputs(const char *s, FILE *o) { if (o != stderr) tr_str(s); return 0; }
int fflush(FILE *o) { (void)o; return 0; }
int vsnprintf(char *s, size_t n, const char *f, va_list ap) { (void)f; (void)ap; if (n) s[0] = 0; return 0; }
int snprintf(char *s, size_t n, const char *f, ...) { (void)f; if (n) s[0] = 0; return 0; }
static int tr_equal(void) {
    if (g_trace[0].n != g_trace[1].n) return 0;
    for (int i = 0; i < TR_MAX; i++) if (i < g_trace[0].n && (g_trace[0].kind[i] != g_trace[1].kind[i] || g_trace[0].val[i] != g_trace[1].val[i])) return 0;
    return 1;
}
#endif
