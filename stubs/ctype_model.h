/* C-locale model of glibc's <ctype.h> classification table.  isspace()/isdigit()/... expand to
 * (*__ctype_b_loc())[c] & mask; CBMC has no body for __ctype_b_loc, so it would return an arbitrary pointer and every
 * classification would dereference "any object" (measured: 188 MB of SSA for a concrete 3-byte input).  This gives the
 * function the table the C locale has (indices -128..255; bytes >= 0x80 and negative chars classify as nothing). */
#ifndef CTYPE_MODEL_H
#define CTYPE_MODEL_H
#include <ctype.h>
#define CT_U (_ISupper | _ISalpha | _ISalnum | _ISgraph | _ISprint)
#define CT_L (_ISlower | _ISalpha | _ISalnum | _ISgraph | _ISprint)
#define CT_D (_ISdigit | _ISxdigit | _ISalnum | _ISgraph | _ISprint)
#define CT_P (_ISpunct | _ISgraph | _ISprint)
static const unsigned short verif_ctype_tab[384] = {
    [128 + 0 ... 128 + 8] = _IScntrl, [128 + 9] = _IScntrl | _ISspace | _ISblank, [128 + 10 ... 128 + 13] = _IScntrl | _ISspace,
    [128 + 14 ... 128 + 31] = _IScntrl, [128 + 32] = _ISspace | _ISblank | _ISprint,
    [128 + 33 ... 128 + 47] = CT_P, [128 + '0' ... 128 + '9'] = CT_D, [128 + 58 ... 128 + 64] = CT_P,
    [128 + 'A' ... 128 + 'F'] = CT_U | _ISxdigit, [128 + 'G' ... 128 + 'Z'] = CT_U, [128 + 91 ... 128 + 96] = CT_P,
    [128 + 'a' ... 128 + 'f'] = CT_L | _ISxdigit, [128 + 'g' ... 128 + 'z'] = CT_L, [128 + 123 ... 128 + 126] = CT_P, [128 + 127] = _IScntrl,
};
static const unsigned short *verif_ctype_ptr = verif_ctype_tab + 128;
const unsigned short **__ctype_b_loc(void) { return &verif_ctype_ptr; }
#endif
