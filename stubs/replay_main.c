/* Native replay driver: loads the solver's assignment (name hex-bit-pattern per line) and runs the harness. */
#include <stdio.h>
#include <stdlib.h>
#include <string.h>
#include <stdint.h>
#ifndef VERIF_ENTRY
#define VERIF_ENTRY harness
#endif
void VERIF_ENTRY(void);
static struct { char name[96]; unsigned long long v; } tab[65536];
static int ntab;
static int lookup(const char *n, unsigned long long *v) {
    for (int i = 0; i < ntab; i++) if (!strcmp(tab[i].name, n)) { *v = tab[i].v; return 1; }
    return 0;
}
void replay_get(const char *name, void *p, size_t elem, size_t n) {
    char key[128];
    memset(p, 0, elem * n);
    for (size_t i = 0; i < n; i++) {
        unsigned long long v = 0;
        if (n == 1) snprintf(key, sizeof key, "%s", name);
        else snprintf(key, sizeof key, "%s[%zu]", name, i);
        if (!lookup(key, &v) && n == 1) { snprintf(key, sizeof key, "%s[0]", name); lookup(key, &v); }
        memcpy((char *)p + i * elem, &v, elem > 8 ? 8 : elem);
    }
}
void replay_fail(const char *msg) { fflush(stdout); fprintf(stderr, "REPLAY-FAIL: %s\n", msg); exit(1); }
void replay_assume_fail(const char *msg) { fflush(stdout); fprintf(stderr, "REPLAY-ASSUME-VIOLATED: %s\n", msg); exit(77); }
int main(int argc, char **argv) {
    if (argc > 1) {
        FILE *f = fopen(argv[1], "r");
        if (!f) { perror("inputs"); return 2; }
        while (ntab < 65536 && fscanf(f, "%95s %llx", tab[ntab].name, &tab[ntab].v) == 2) ntab++;
        fclose(f);
    }
    VERIF_ENTRY();
    printf("REPLAY-OK: harness completed, property held on this input\n");
    return 0;
}
