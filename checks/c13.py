#!/usr/bin/env python3
"""C13: no bytecode input makes the loader, the verifier or the VM misbehave."""
import os, sys, time
sys.path.insert(0, os.path.join(os.path.dirname(os.path.abspath(__file__)), '..', 'lib'))
from vlib import *
import nvmjobs, verjobs, vmjobs
try:
    import drvjobs
except Exception:
    drvjobs = None

def main():
    tier = tier_arg(); t0 = time.time()
    jobs = [nvmjobs.loader_job(size, secs, tier, 'c13') for (size, secs) in nvmjobs.loader_instances(tier)]
    vj = verjobs.ver_jobs('c13', tier)
    if tier == 'quick':
        vj = [j for j in vj if j.name.count('-') <= 1 or 'undef' in j.name][:34]
    jobs += vj
    mj, missing = vmjobs.matrix_jobs('c13', tier, audit=False, group='vm_step_safety')
    jobs += mj
    if drvjobs: jobs += drvjobs.c13_jobs(tier)
    run_jobs(jobs)
    meta = {
        'functions_encoded': ['nvm_format.c: nvm_deserialize, nvm_module_new/free, nvm_add_* (arbitrary files, CRC uninterpreted)',
                              'verifier.c: nvm_verify, verify_structure, verify_function + isa.c isa_decode',
                              'vm.c: vm_core_execute (exactly one instruction per query, fuel hook) + heap.c (all), value.c, isa.c'],
        'bounds': {'loader': 'files <= 95 bytes, <= 3 sections, concrete placement, symbolic content; directory fields fully symbolic for skipped section types',
                   'verifier': 'function 0 = 1..3 concrete opcodes with symbolic operands; code_length/local_count/upvalue_count/name_idx/counts symbolic; code_offset symbolic on all-NOP code',
                   'vm': '%d opcode x operand-kind instances (every opcode of isa.h has >= 1; opcodes without instance: %s); one instruction from a constructed state: stack <= 8, frames <= 3, globals <= 2, strings 2 bytes, arrays len 2 cap 4, containers with 2 fields; immediates, ints, float bits, string bytes symbolic; ill-typed operand tuples included' % (len(mj), missing),
                   'literal counts': 'ARR_LITERAL/STRUCT_LITERAL/TUPLE_NEW/UNION_CONSTRUCT/CLOSURE_NEW counts fixed to 0..2'},
        'outside': ['multi-instruction runs of hostile modules (one inductive step only; the state invariant asserted is stack_size<=capacity, frame_count<=max, current_fn valid)',
                    'stack growth by realloc (the harness stack is static: instances stay below capacity)', 'functions with > 2 locals / literal counts > 2',
                    'signed overflow of + - * neg on language ints is taken as wrap-around (gcc -O0 behaviour); division overflow IS checked',
                    'vm_ffi / extern calls (the property excludes modules with imports)'],
        'assumptions': ['allocation does not fail', 'CRC any value (covers well-checksummed hostile files)'],
        'stubs': ['nvm_crc32 uninterpreted', 'vsnprintf/snprintf no-op', 'strtoll/strtod/strstr arbitrary result', 'memset of DecodedInstruction modelled as struct assignment (stubs/isa_memset.h)'],
        'explanation': 'Memory safety (bounds, use-after-free, double free, invalid free), no division overflow, bounded termination (unwinding assertions) and the meaning of acceptance for loader and verifier; for the VM each opcode executes one step from an arbitrary constructed state without any CBMC safety violation and ends in a trap or a state satisfying the invariant.',
    }
    sys.exit(finish('C13', tier, 'model_checking', jobs, meta, t0))

if __name__ == '__main__':
    main()
