"""Jobs for the bytecode verifier harness (C13)."""
import os, re, sys
sys.path.insert(0, os.path.join(os.path.dirname(os.path.abspath(__file__)), '..', 'lib'))
from vlib import *
import vmjobs
SZ = {'OPERAND_U8': 1, 'OPERAND_U16': 2, 'OPERAND_U32': 4, 'OPERAND_I32': 4, 'OPERAND_I64': 8, 'OPERAND_F64': 8}
_tab = None
def instr_table():
    """opcode name -> total encoded size, parsed from isa.c's INSTRn table (current tree)."""
    global _tab
    if _tab is None:
        txt = open(os.path.join(REPO, 'src/nanoisa/isa.c')).read()
        _tab = {}
        for m in re.finditer(r'INSTR\d\((OP_[A-Z0-9_]+),\s*"[^"]*"((?:,\s*OPERAND_[A-Z0-9]+)*)\)', txt):
            _tab[m.group(1)] = 1 + sum(SZ[x.strip()] for x in m.group(2).split(',') if x.strip())
    return _tab
CK = {'OP_JMP': 1, 'OP_JMP_TRUE': 1, 'OP_JMP_FALSE': 1, 'OP_MATCH_TAG': 2, 'OP_CALL': 3, 'OP_CLOSURE_NEW': 3, 'OP_PUSH_STR': 4,
      'OP_CALL_EXTERN': 5, 'OP_LOAD_LOCAL': 6, 'OP_STORE_LOCAL': 6, 'OP_LOAD_UPVALUE': 7, 'OP_STORE_UPVALUE': 7}
UNDEF = 0xF9

def ver_job(prefix, seq, nfunc=1, code=None, sym_offset=False, tier='quick'):
    tab, ops = instr_table(), vmjobs.opcodes()
    d = {'NFUNC': nfunc}
    p = 0; names = []
    for k, op in enumerate(seq):
        if op == 'UNDEF':
            d['OPC%d' % k] = UNDEF; d['Z%d' % k] = 1; d['CK%d' % k] = 8
        else:
            d['OPC%d' % k] = ops[op]; d['Z%d' % k] = tab[op]; d['CK%d' % k] = CK.get(op, 0)
        d['P%d' % k] = p; p += d['Z%d' % k]; names.append(op.replace('OP_', '').lower())
    d['CODE'] = code if code is not None else p + 2
    d['SEQ_END'] = p if seq else 0
    if sym_offset: d['SYM_OFFSET'] = None; d['ZERO_CODE'] = None
    nm = '%s_verify_%s_f%d%s' % (prefix, '-'.join(names) or 'empty', nfunc, '_symoff' if sym_offset else '')
    return Job(name=nm, harness='verifier_h.c', sources=['src/nanoisa/verifier.c', 'src/nanoisa/isa.c', 'src/nanoisa/nvm_format.c'],
               defines=d, unwind=d['CODE'] + 3, unwindset=['isa_decode.0:5'], flags=['--max-field-sensitivity-array-size', '64'],
               timeout=1200, group='verifier',
               desc={'function0_instructions': seq, 'functions': nfunc, 'code_bytes': d['CODE'],
                     'symbolic': 'all operand bytes, trailing bytes, code_length/local_count/upvalue_count/name_idx of each function, string/import counts, entry/flags'
                                 + (', code_offset (code all NOP)' if sym_offset else '')})

def ver_jobs(prefix, tier):
    jobs = []
    checked = ['OP_JMP', 'OP_JMP_TRUE', 'OP_JMP_FALSE', 'OP_MATCH_TAG', 'OP_CALL', 'OP_CLOSURE_NEW', 'OP_PUSH_STR', 'OP_CALL_EXTERN',
               'OP_LOAD_LOCAL', 'OP_STORE_LOCAL', 'OP_LOAD_UPVALUE', 'OP_STORE_UPVALUE']
    other = ['OP_PUSH_I64', 'OP_ADD', 'OP_RET', 'OP_ARR_LITERAL', 'OP_UNION_CONSTRUCT', 'OP_DEBUG_LINE']
    jobs.append(ver_job(prefix, [], 1, code=4, tier=tier))
    jobs.append(ver_job(prefix, [], 2, code=4, sym_offset=True, tier=tier))
    jobs.append(ver_job(prefix, [], 1, code=6, sym_offset=True, tier=tier))
    for op in checked + other:
        jobs.append(ver_job(prefix, [op], 1, tier=tier))
        jobs.append(ver_job(prefix, [op, 'OP_RET'], 1, tier=tier))
    for op in checked[:6] + ['OP_PUSH_I64']:
        jobs.append(ver_job(prefix, ['OP_NOP', op, 'UNDEF'], 1, tier=tier))
        jobs.append(ver_job(prefix, [op, 'OP_RET'], 2, tier=tier))
    jobs.append(ver_job(prefix, ['UNDEF'], 1, tier=tier))
    jobs.append(ver_job(prefix, ['OP_NOP', 'UNDEF'], 1, tier=tier))
    if tier == 'thorough':
        for a in checked:
            for b in checked[::3] + other[:2]:
                jobs.append(ver_job(prefix, [a, b, 'OP_RET'], 1, tier=tier))
    seen = set(); return [j for j in jobs if not (j.name in seen or seen.add(j.name))]
