#!/usr/bin/env python3
"""C10: stored modules reload identically (nvm_format.c round trip); exit-status derivation of the three runners."""
import os, sys, time
sys.path.insert(0, os.path.join(os.path.dirname(os.path.abspath(__file__)), '..', 'lib'))
from vlib import *
import nvmjobs
try:
    import c10_mains
except Exception:
    c10_mains = None

def main():
    tier = tier_arg(); t0 = time.time()
    jobs = [nvmjobs.rt_job(sh, 0, tier, 'c10') for sh in nvmjobs.shapes(tier)]
    extra = c10_mains.jobs(tier) if c10_mains else []
    jobs += extra
    run_jobs(jobs)
    meta = {
        'functions_encoded': ['nvm_format.c: nvm_module_new, nvm_add_string, nvm_add_function, nvm_append_code, nvm_add_debug_entry, nvm_add_import, nvm_serialize, nvm_deserialize, nvm_module_free'] + (c10_mains.FUNCS if c10_mains else []),
        'bounds': {'module shapes': '%d shapes: strings<=3 (len<=3, incl. empty, empty-last, equal-length pairs that may de-duplicate), code<=6 bytes, functions<=2, debug<=2, imports<=2 (params<=2)' % len(nvmjobs.shapes(tier)),
                   'contents': 'all string/code bytes, all entry fields, flags, entry point symbolic'},
        'outside': ['modules larger than the shapes', 'modules whose string pool was built bypassing nvm_add_string (duplicate entries are re-indexed by the loader)'] + (c10_mains.OUTSIDE if c10_mains else ['exit status of nano_vm / wrapper / --run (driver harness not built yet)']),
        'assumptions': ['allocation does not fail', 'nvm_crc32 modelled as uninterpreted function (same bytes => same checksum)'],
        'stubs': ['nvm_crc32 -> uninterpreted-function model'],
        'explanation': 'deserialize(serialize(m)) == m field by field and serialize(deserialize(serialize(m))) is byte-identical, for every content of each module shape.',
    }
    sys.exit(finish('C10', tier, 'model_checking', jobs, meta, t0))

if __name__ == '__main__':
    main()
