#!/usr/bin/env python3
"""C15: values cross the co-process boundary bit for bit (wire codec round trip)."""
import os, sys, time
sys.path.insert(0, os.path.join(os.path.dirname(os.path.abspath(__file__)), '..', 'lib'))
from vlib import *
import copjobs

def main():
    tier = tier_arg(); t0 = time.time()
    jobs = copjobs.c15_jobs('c15', tier) + copjobs.rw_jobs('c15', tier)
    run_jobs(jobs)
    meta = {
        'functions_encoded': ['cop_protocol.c: cop_serialize_value, cop_deserialize_value(_at), read_all, write_all', 'heap.c: vm_string_new, vm_array_new, vm_array_push, fnv1a'],
        'bounds': {'value shapes': 'int, float, bool, void, opaque, string (0..3 bytes; thorough 0..5), arrays of int/float/bool/string/array with 0..2 elements (thorough 0..3; nested arrays 1 element in quick)',
                   'contents': 'all 64-bit payloads (NaN payloads, -0.0, INT64_MIN), all string bytes incl. NUL', 'buffer': 'every buffer size 0..E+2 (too small => 0 returned, nothing written past it); every truncation of the encoding is refused'},
        'outside': ['strings longer than 5 bytes / arrays longer than 3 (the codec loops are uniform in length; not proved beyond the bound)',
                    'the request path vm_ffi_call_cop: its fixed 8 KiB request buffer refuses argument lists that serialise to more than 8186 bytes ("COP: failed to serialize arg") while the in-process path succeeds - observed by reading and by the seeding agents, but the harness with a 9000-byte string gave no verdict (out of memory), so this clause is NOT decided here',
                    'behaviour of real FFI libraries in either process (dlopen, C calling convention) cannot be encoded'],
        'assumptions': ['allocation does not fail'],
        'stubs': ['snprintf no-op'],
        'explanation': 'serialize into a buffer of symbolic size, assert the documented size and layout, decode, compare bit for bit (floats as bit patterns). The structural bytes of the encoding (tags, counts, lengths) are asserted to be the documented constants and then re-assigned as constants so that the decoder runs on concrete structure and symbolic payload.',
    }
    sys.exit(finish('C15', tier, 'model_checking', jobs, meta, t0))

if __name__ == '__main__':
    main()
