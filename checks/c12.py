#!/usr/bin/env python3
"""C12: a damaged bytecode file is refused (nvm_format.c)."""
import os, sys, time
sys.path.insert(0, os.path.join(os.path.dirname(os.path.abspath(__file__)), '..', 'lib'))
from vlib import *
import nvmjobs

def crc_jobs(tier):
    jobs = []
    def cj(name, d, unw, to=900):
        return Job(name=name, harness='crc_algebra.c', defines=d, unwind=unw, unwindset=['crc32_init.0:9', 'crc32_init.1:257'],
                   flags=['--max-field-sensitivity-array-size', '256'], timeout=to, group='crc_algebra', must_witness=['done'],
                   desc={'lemma': name, 'params': d})
    jobs.append(cj('c12_crc_table', {'PART': 1}, 258))
    for o in range(8):
        jobs.append(cj('c12_crc_linear_burst_ofs%d' % o, {'PART': 6, 'OFS': o}, 9))
        jobs.append(cj('c12_crc_burst5_ofs%d' % o, {'PART': 3, 'OFS': o}, 7))
    jobs.append(cj('c12_crc_step_injective', {'PART': 4}, 5))
    for n in (list(range(0, 10)) + ([12, 16, 17, 24] if tier == 'thorough' else [])):
        jobs.append(cj('c12_crc_definition_n%d' % n, {'PART': 5, 'N': n}, max(n + 2, 9), 900))
    if tier == 'thorough':
        for n in (1, 2, 3):
            jobs.append(cj('c12_crc_affine_n%d' % n, {'PART': 2, 'N': n}, n + 2, 900))
    return jobs

def main():
    tier = tier_arg(); t0 = time.time()
    jobs = crc_jobs(tier)
    for sh in nvmjobs.shapes(tier):
        for mode in (1, 2, 3):
            jobs.append(nvmjobs.rt_job(sh, mode, tier, 'c12'))
    for (size, secs) in nvmjobs.loader_instances(tier):
        jobs.append(nvmjobs.loader_job(size, secs, tier, 'c12'))
    if tier == 'thorough':
        for size in (0, 8, 31):     # 32 and 44 (a fully symbolic header in front of a directory): SAT out of memory (measured)
            jobs.append(nvmjobs.loader_job(size, [], tier, 'c12', free_header=True))
    run_jobs(jobs)
    meta = {
        'functions_encoded': ['nvm_format.c: nvm_crc32, crc32_init, nvm_validate_header, nvm_deserialize, nvm_serialize, nvm_add_*, nvm_module_new/free (real TU; nvm_crc32 replaced by an uninterpreted function except in the crc_algebra jobs)'],
        'bounds': {'module shapes': 'strings<=3 (len<=3), code<=6 bytes, functions<=2, debug<=2, imports<=2 (params<=2); contents symbolic',
                   'truncation': 'every length 0..|f|-1 (symbolic)', 'extension': 'tails of 1..4 arbitrary bytes',
                   'header damage': 'any xor mask on any byte of magic/version/stored checksum',
                   'loader': 'arbitrary files up to 95 bytes, <=3 sections, concrete section placement, symbolic contents; directory fields symbolic for skipped section types',
                   'crc': 'definition equality on messages of 0..9 bytes (thorough: ..24); burst lemmas: all 2^32-1 non-zero bursts at all 8 bit offsets'},
        'outside': ['files larger than the instance bounds (the CRC lemmas are length-independent, the structural checks are per shape)',
                    'nano_vm / daemon main programs refusing to run after a failed load (covered by C13/C18 driver harnesses)'],
        'assumptions': ['allocation does not fail', 'CRC as uninterpreted function in structural jobs: any value, equal inputs give equal value'],
        'stubs': ['nvm_crc32 -> harness uninterpreted-function model (structural jobs only)'],
        'explanation': 'L1 wrong magic/version/stored checksum refused for every xor mask; L2 writer stores crc of the final body; '
                       'L3 CRC detection for ANY body length by induction from lemmas proved on the real code: (a) table equals the '
                       '0xEDB88320 table and nvm_crc32 equals the reference fold on all messages up to the bound; (b) table is GF(2)-linear, '
                       'so the difference state of two equal-length messages evolves independently of content; (c) after the <=5 bytes '
                       'covering any non-zero 32-bit-window burst the difference state is non-zero (all bursts, all 8 bit offsets); '
                       '(d) the per-byte state update is injective, so equal suffix bytes never cancel a difference; hence every burst '
                       '<=32 bits (incl. single-bit flips) anywhere changes the checksum and the loader (which compares before parsing) '
                       'refuses. L4 truncation at every length and appended tails are refused structurally, even if the checksum matches; '
                       'accepted => every section lies inside the file and was consumed exactly (all-or-nothing).',
    }
    sys.exit(finish('C12', tier, 'model_checking', jobs, meta, t0))

if __name__ == '__main__':
    main()
