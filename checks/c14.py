#!/usr/bin/env python3
"""C14: the VM heap never frees or loses count of a referenced object (one inductive step per opcode)."""
import os, sys, time
sys.path.insert(0, os.path.join(os.path.dirname(os.path.abspath(__file__)), '..', 'lib'))
from vlib import *
import vmjobs

def main():
    tier = tier_arg(); t0 = time.time()
    jobs, missing = vmjobs.matrix_jobs('c14', tier, audit=True, group='vm_step_refcount_audit')
    run_jobs(jobs)
    meta = {
        'functions_encoded': ['vm.c: vm_core_execute (one instruction), heap.c: vm_retain, vm_release, release_*, vm_string_new/concat/substr, vm_array_*, vm_struct_new, vm_union_new, vm_tuple_new, vm_closure_new, vm_hashmap_*; value.c'],
        'bounds': {'instances': '%d opcode x operand-kind tuples incl. aliasing (same object in two slots) and containers holding strings' % len(jobs),
                   'pre-state': '<= 8 registered objects: strings (2 bytes), arrays (len 2, cap 4) of ints/strings, struct/union/tuple (int,string), closure (1 captured string), hashmap (1 entry); each root object additionally has 0..2 hidden references (symbolic)',
                   'roots': 'operand stack (<=8), one local, one global, frame closure, trap payload'},
        'outside': ['sequences of instructions (one inductive step; Inv: ref_count >= in-degree + hidden references, freed => no reference)',
                    'the churn clause is decided per instruction only: ref_count == in-degree + hidden after a non-trapping step (no reference leaked); whole-loop object counts are not measured',
                    'objects nested deeper than container->string', 'interned-string sharing between equal strings (harness strings are not interned)'],
        'assumptions': ['allocation does not fail', 'free() is replaced by a ghost recorder (-Dfree=verif_free on vm.c/heap.c/value.c) so that the audit can inspect released memory; double free = same pointer recorded twice'],
        'stubs': ['free -> verif_free (ghost)', 'vsnprintf/snprintf no-op', 'strtoll/strtod/strstr arbitrary', 'memset of DecodedInstruction as struct assignment'],
        'explanation': 'For every opcode and operand-kind tuple, from any pre-state satisfying Inv, after one real instruction: no registered object with a remaining reference (root, live container, hidden) was freed; every live registered object has ref_count >= in-degree + hidden; nothing freed twice; objects created by the instruction and reachable have ref_count >= 1 and are not freed.',
    }
    sys.exit(finish('C14', tier, 'model_checking', jobs, meta, t0))

if __name__ == '__main__':
    main()
