"""Jobs for the co-process wire codec (C15) and decoder robustness (C16)."""
import os, sys, re
sys.path.insert(0, os.path.join(os.path.dirname(os.path.abspath(__file__)), '..', 'lib'))
from vlib import *
SH = dict(int=1, float=2, bool=3, void=4, opaque=5, str=6, arr_int=7, arr_str=8, arr_arr=9, arr_float=10, arr_bool=11)
SRC = ['src/nanovm/cop_protocol.c', 'src/nanovm/heap.c', 'src/nanovm/value.c']
TAGS = None
def tags():
    global TAGS
    if TAGS is None:
        txt = open(os.path.join(REPO, 'src/nanoisa/isa.h')).read()
        m = re.search(r'typedef enum \{(.*?)\}\s*NanoValueTag;', txt, re.S)
        TAGS = {n: int(v, 0) for n, v in re.findall(r'\b(TAG_[A-Z0-9_]+)\s*=\s*(0x[0-9A-Fa-f]+|\d+)', m.group(1))}
    return TAGS

def rt_job(prefix, shape, slen=2, alen=2, tier='quick', trunc=False):
    esz = {'int': 9, 'float': 9, 'opaque': 9, 'bool': 2, 'void': 1, 'str': 5 + slen, 'arr_int': 6 + 9 * alen, 'arr_float': 6 + 9 * alen, 'arr_bool': 6 + 2 * alen, 'arr_str': 6 + (5 + slen) * alen, 'arr_arr': 6 + 15 * alen}[shape]
    cap = esz + 2
    depth = {'arr_arr': 3}.get(shape, 2 if shape.startswith('arr') else 1)
    dd = {'MODE': 0, 'SHAPE': SH[shape], 'SLEN': slen, 'ALEN': alen, 'CAP': cap}
    if trunc: dd['TRUNC'] = None
    return Job(name='%s_codec_%s_%s_s%d_a%d' % (prefix, 'trunc' if trunc else 'rt', shape, slen, alen), harness='cop_codec.c', sources=SRC,
               defines=dd, unwind=cap + 2,
               unwindset=['cop_serialize_value:%d' % depth, 'cop_deserialize_value:%d' % depth, 'cop_deserialize_value_at:%d' % depth, 'cop_serialize_value.0:%d' % (alen + 2), 'cop_deserialize_value.0:%d' % (alen + 2), 'cop_deserialize_value_at.0:%d' % (alen + 2),
                          'vm_release:3', 'release_array.0:%d' % (alen + 6), 'vm_release.0:%d' % 8, 'release_hashmap.0:1', 'release_hashmap.1:1', 'release_struct.0:1', 'release_struct.1:1', 'release_union.0:1', 'release_tuple.0:1', 'release_closure.0:1',
                          'fnv1a.0:%d' % (slen + 2), 'vm_string_new.0:%d' % (alen + 3), 'memcmp.0:%d' % (slen + 2), 'same:4', 'same.0:%d' % (slen + 3), 'same.1:%d' % (alen + 3)],
               flags=['--slice-formula'], timeout=1200, group='cop_codec_roundtrip', must_witness=['round trip done'],
               replay_sources=SRC + ['src/nanoisa/isa.c'],
               desc={'value_shape': shape, 'string_len': slen, 'array_len': alen, 'symbolic': 'all payload bits/bytes, buffer size 0..64, buffer fill, truncation length'})

def dec_job(prefix, tag0, size, etag=None, tag1=None, tier='quick', count=None, tag2=None):
    t = tags()
    d = {'MODE': 1, 'SIZE': size, 'TAG0': t.get(tag0, tag0) if isinstance(tag0, str) else tag0}
    if etag is not None: d['ETAG'] = t[etag]
    if tag1 is not None: d['TAG1'] = t[tag1]
    if count is not None: d['COUNT'] = count
    if tag2 is not None:
        d['TAG2'] = t[tag2]; d['TAG2_OFF'] = 6 + {'TAG_INT': 9, 'TAG_FLOAT': 9, 'TAG_BOOL': 2, 'TAG_VOID': 1, 'TAG_OPAQUE': 9}[tag1]
    nm = '%s_codec_dec_%s%s%s_sz%d' % (prefix, str(tag0).lower(), ('_e' + etag.lower()) if etag else '', (('_t' + tag1.lower()) if tag1 else '') + (('_c%x' % count) if count is not None else '') + (('_u' + tag2.lower()) if tag2 else ''), size)
    return Job(name=nm, harness='cop_codec.c', sources=SRC, defines=d, unwind=size + 4,
               unwindset=['cop_deserialize_value:4', 'cop_deserialize_value.0:%d' % (size + 2), 'cop_deserialize_value_at:4', 'cop_deserialize_value_at.0:%d' % (size + 2), 'vm_release:4', 'release_array.0:%d' % (size + 2), 'vm_release.0:%d' % 8, 'release_hashmap.0:1', 'release_hashmap.1:1', 'release_struct.0:1', 'release_struct.1:1', 'release_union.0:1', 'release_tuple.0:1', 'release_closure.0:1', 'fnv1a.0:%d' % (size + 2), 'vm_string_new.0:%d' % (size + 2), 'memcmp.0:%d' % (size + 2)],
               flags=['--slice-formula'], timeout=1200, group='cop_decoder_hostile',
               desc={'first_tag': str(tag0), 'array_elem_tag': etag, 'first_element_tag': tag1, 'buffer_bytes': size,
                     'symbolic': 'every byte except the fixed tag bytes (lengths, counts, payload)'})

def c15_jobs(prefix, tier):
    jobs = []
    for sh in ('int', 'float', 'bool', 'void', 'opaque'):
        jobs.append(rt_job(prefix, sh, tier=tier))
    for sl in ((0, 1, 3) if tier == 'quick' else (0, 1, 2, 3, 5)):
        jobs.append(rt_job(prefix, 'str', slen=sl, tier=tier))
    for al in ((0, 2) if tier == 'quick' else (0, 1, 2)):   # 3 elements: out of memory (measured)
        for sh in ('arr_int', 'arr_float', 'arr_bool', 'arr_str', 'arr_arr'):
            jobs.append(rt_job(prefix, sh, slen=1, alen=(min(al, 1) if sh == 'arr_arr' else al), tier=tier))
    seen = set(); jobs = [j for j in jobs if not (j.name in seen or seen.add(j.name))]
    jobs += [rt_job(prefix, j.desc['value_shape'], slen=j.desc['string_len'], alen=j.desc['array_len'], tier=tier, trunc=True) for j in list(jobs)]
    return jobs

def c16_dec_jobs(prefix, tier):
    jobs = []
    for size in ((1, 5, 12) if tier == 'quick' else (1, 2, 5, 9, 12, 16)):
        for tg in ('TAG_INT', 'TAG_FLOAT', 'TAG_BOOL', 'TAG_STRING', 'TAG_OPAQUE', 'TAG_VOID', 0xEE):
            jobs.append(dec_job(prefix, tg, size, tier=tier))
    # arrays: structure (count, element tags) concrete, lengths/payload symbolic; plus symbolic count with no room for elements
    for et in ('TAG_INT', 'TAG_STRING', 'TAG_ARRAY'):
        jobs.append(dec_job(prefix, 'TAG_ARRAY', 6, etag=et, tier=tier))                      # count symbolic, zero bytes left
        for cnt in (0, 1, 0xFFFFFFFF, 0x80000000, 7):
            jobs.append(dec_job(prefix, 'TAG_ARRAY', 6, etag=et, count=cnt, tier=tier))
        for size in ((12,) if tier == 'quick' else (8, 12, 14)):   # 17-byte nested arrays: no verdict in 1200 s (measured)
            for t1 in ('TAG_INT', 'TAG_STRING', 'TAG_BOOL', 'TAG_VOID', 'TAG_ARRAY'):
                if size > 12 and t1 == 'TAG_ARRAY': continue      # nested arrays beyond 12 bytes: no verdict in 1200 s (measured)
                jobs.append(dec_job(prefix, 'TAG_ARRAY', size, etag=et, tag1=t1, count=1, tier=tier))
                jobs.append(dec_job(prefix, 'TAG_ARRAY', size, etag=et, tag1=t1, count=0xFFFFFFFF, tier=tier))
            for t1 in ('TAG_BOOL', 'TAG_VOID'):
                for t2 in ('TAG_STRING', 'TAG_INT', 'TAG_ARRAY'):
                    if 6 + {'TAG_BOOL': 2, 'TAG_VOID': 1}[t1] >= size: continue
                    if size > 12 and t2 == 'TAG_ARRAY': continue
                    jobs.append(dec_job(prefix, 'TAG_ARRAY', size, etag=et, tag1=t1, count=2, tag2=t2, tier=tier))
    return jobs


def fault_job(prefix, ncalls=1, tier='quick'):
    d = {'NCALLS': ncalls}
    return Job(name='%s_copfault_%dcall' % (prefix, ncalls), harness='cop_fault.c', sources=['src/nanovm/heap.c', 'src/nanovm/value.c'], defines=d, unwind=10,
               unwindset=['cop_deserialize_value_at:3', 'cop_serialize_value:2', 'vm_release:2', 'harness.1:26', 'harness.0:%d' % (ncalls + 1)],
               remove_bodies=['vm_ffi_call', 'cop_deserialize_value'], flags=['--slice-formula'], timeout=1500, mem_gb=14,
               replay='none', must_witness=['shutdown done'], group='cop_fault_schedule',
               desc={'external_calls': ncalls, 'symbolic': 'result of every read/write/waitpid/fork/pipe (error, EOF, short count, arbitrary bytes), i.e. every fault schedule and every reply; argument value; import index',
                     'stubs': 'in-process vm_ffi_call and the value decoder return arbitrary results (decoder verified separately)'})


def rw_jobs(prefix, tier):
    jobs = []
    for d, nm in ((0, 'read_all'), (1, 'write_all')):
        for ln in ((1, 5) if tier == 'quick' else (1, 2, 5, 9)):
            jobs.append(Job(name='%s_%s_len%d' % (prefix, nm, ln), harness='cop_rw.c', sources=['src/nanovm/heap.c', 'src/nanovm/value.c'], defines={'DIR': d, 'LEN': ln}, unwind=ln + 3,
                            timeout=300, flags=['--slice-formula'], replay='none', group='cop_transport', must_witness=['transfer done'],
                            desc={'function': nm, 'bytes': ln, 'symbolic': 'content, size of every chunk (1..remaining), one EINTR at any point'}))
    return jobs
