"""Jobs for runtime/dyn_array.c one-operation harness (C08 native part, C20)."""
import os, sys
sys.path.insert(0, os.path.join(os.path.dirname(os.path.abspath(__file__)), '..', 'lib'))
from vlib import *
EK = {'int': 1, 'u8': 8, 'float': 2, 'string': 3, 'bool': 4, 'array': 5, 'struct': 6}
OPS = {'get': 1, 'set': 2, 'pop': 3, 'remove': 4, 'push': 5, 'clear': 6, 'reserve': 7, 'clone': 8,
       'get_struct': 9, 'set_struct': 10, 'push_struct': 11, 'pop_struct': 12}

def dyn_job(prefix, op, ek, cap=4, tier='quick'):
    wit = {'pop': ['pop empty', 'pop nonempty'], 'pop_struct': ['pop_struct empty', 'pop_struct nonempty']}.get(op, ['returned'])
    return Job(name='%s_dyn_%s_%s_cap%d' % (prefix, op, ek, cap), harness='dynarr.c', sources=['src/runtime/dyn_array.c'],
               defines={'OP': OPS[op], 'EK': EK[ek], 'CAP': cap}, unwind=(2 * cap + 1) * (12 if ek == 'struct' else 8) + 2,
               timeout=300, group='dyn_array', must_witness=wit, replay_sources=['src/runtime/dyn_array.c', 'src/runtime/gc.c', 'src/runtime/gc_struct.c'],
               desc={'operation': op, 'element_kind': ek, 'capacity': cap,
                     'symbolic': 'length 0..capacity, all element contents, index (any int64), pushed/stored value'})

def c08_dyn_jobs(prefix, tier):
    jobs = []
    for ek in ('int', 'u8', 'float', 'string', 'bool', 'array'):
        for op in ('get', 'set', 'remove'):
            jobs.append(dyn_job(prefix, op, ek, 4, tier))
    jobs.append(dyn_job(prefix, 'get_struct', 'struct', 3, tier))
    jobs.append(dyn_job(prefix, 'set_struct', 'struct', 3, tier))
    return jobs

def c20_dyn_jobs(prefix, tier):
    jobs = []
    caps = (4,) if tier == 'quick' else (1, 4, 8)
    for cap in caps:
        for ek in ('int', 'u8', 'float', 'string', 'bool', 'array'):
            for op in ('get', 'set', 'pop', 'remove', 'push', 'clear', 'reserve', 'clone'):
                jobs.append(dyn_job(prefix, op, ek, cap, tier))
        for op in ('get_struct', 'set_struct', 'push_struct', 'pop_struct', 'remove'):
            jobs.append(dyn_job(prefix, op, 'struct', min(cap, 3), tier))
    seen = set(); return [j for j in jobs if not (j.name in seen or seen.add(j.name))]
