#!/usr/bin/env python3
"""C18: the daemon survives malformed and abandoned client sessions."""
import os, sys, time
sys.path.insert(0, os.path.join(os.path.dirname(os.path.abspath(__file__)), '..', 'lib'))
from vlib import *
import drvjobs

def main():
    tier = tier_arg(); t0 = time.time()
    jobs = drvjobs.c18_jobs(tier)
    run_jobs(jobs)
    meta = {
        'functions_encoded': ['vmd_server.c: client_thread, socket_fopen, socket_write_cookie, socket_close_cookie, vmd_server_run (accept loop), setup_signals, pid-file helpers',
                              'vmd_protocol.c: vmd_msg_recv_header, vmd_msg_recv_payload, vmd_msg_send*, read_all, write_all'],
        'bounds': {'session': 'ONE whole client session: every header byte (version, type, length), payload read outcome at every point (EOF, reset, short reads), write failures at every point (client vanished while printing), <= 2 output chunks of 1..4 bytes, every loader/verifier/VM outcome',
                   'accept loop': '%s poll rounds with every poll/accept/pthread_create outcome' % ('2' if tier == 'quick' else '3')},
        'outside': ['concurrency between sessions (one session per query; see C17 not-applicable)', 'hostile modules themselves (C13)', 'stdio buffering of the socket-backed stream (fopencookie modelled as an unbuffered stream)'],
        'assumptions': ['POSIX contracts of read/write/close/poll/accept/pthread_create as written in harness/vmd_session.c', 'allocation does not fail (except fopencookie, which may)'],
        'stubs': ['read, write, close, poll, accept, socket/bind/listen/unlink/chmod, pthread_*, fopencookie/fclose/fflush/setvbuf/fopen, nvm_deserialize, nvm_verify, vm_init/vm_execute/vm_destroy, vm_ffi_cop_stop, nvm_module_free (ghosts: live modules, live VMs, verified flag)'],
        'explanation': 'Memory safety and no leak (CBMC --memory-leak-check) on every path of a session; descriptor closed exactly once; active-client counter restored; module/VM released; execution only after verification; exit-code frame is the last frame; the accept loop never ends because accept() or thread creation failed and leaks no accepted descriptor.',
    }
    sys.exit(finish('C18', tier, 'fault_enumeration', jobs, meta, t0))

if __name__ == '__main__':
    main()
