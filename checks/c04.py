#!/usr/bin/env python3
"""C04: accepted programs never get stuck on any backend (cc accepts the generated C, bytecode verifies, VM never ends in an internal error)."""
import os, sys
sys.path.insert(0, os.path.dirname(os.path.abspath(__file__)))
import c01
if __name__ == '__main__':
    sys.exit(c01.run('C04', lambda f: f['description'].startswith('C04:') or 'unwinding' in f['description'] or f['loc'].endswith('genC') or '.genC' in f['loc']))
