#!/usr/bin/env python3
"""C19 (bytecode serialisation kernels): encoded instructions and .nvm files are functions of the semantic content only."""
import os, sys, time
sys.path.insert(0, os.path.join(os.path.dirname(os.path.abspath(__file__)), '..', 'lib'))
from vlib import *
import nvmjobs, c11

NF = 2
def order_job(ns, nu, fill=False):
    return Job(name='c19_deforder%s_s%d_u%d' % ('_fill' if fill else '', ns, nu), harness='c19_order.c', sources=['src/transpiler.c'],
               defines=dict({'NS': ns, 'NU': nu}, **({'FILL': 1} if fill else {})),
               src_defines=dict({'static': ''}, **({'malloc': 'verif_malloc'} if fill else {})),
               src_remove_bodies=['emit_struct_definition_single', 'emit_union_definition_single', 'emit_generic_union_instantiation', 'sb_append'],
               unwind=ns + nu + 2, unwindset=['strcmp.0:3'] + (['verif_malloc.0:262'] if fill else []), timeout=600, replay='custom' if fill else 'none', group='c_definition_order', must_witness=['ordering done'],
               desc={'structs': ns, 'unions': nu, 'fields_per_struct': NF,
                     'fresh_heap_memory': 'one arbitrary fill byte per run (the glibc malloc.perturb model; counterexamples replay on the real nanoc_c); source-expressible graphs only' if fill else 'arbitrary contents, independent in the two runs (not installable in a real process: no replay)',
                     'symbolic': 'for every field: plain / struct / union / composite without a recorded name, and which of the types (or an undefined name) it refers to - i.e. every dependency graph on %d nodes incl. self references, cycles, duplicate edges; contents of every malloc result, independently in the two runs' % (ns + nu),
                     'stubs': 'emit_struct_definition_single / emit_union_definition_single / emit_generic_union_instantiation record the definition they are asked to write (the text of one definition is not the subject); TU compiled with -Dstatic= so the static function is callable'})


def order_replay(job, failed, inputs, outdir):
    """Replay on the real nanoc: the counterexample's dependency graph as a source file, transpiled (nanoc_c -S) under
    different fill bytes for fresh heap memory; reproduced iff the generated C differs."""
    sys.path.insert(0, os.path.join(VERIF, 'gen'))
    import e2
    ns, nu = job.defines['NS'], job.defines['NU']; nt = ns + nu
    names = ['Aa', 'Bb', 'Cc', 'Dd', 'Ee', 'Ff']
    def arr(n):
        return [inputs.get('%s[%d]' % (n, k), 0) for k in range(nt * NF)]
    comp, dep = arr('in_comp'), arr('in_dep')
    def fld(i, f):
        k = i * NF + f
        c = comp[k] if k < len(comp) else 0; d = dep[k] if k < len(dep) else 0
        return names[d] if (c in (1, 2) and d < nt) else 'int'
    src = ''
    for i in range(ns):
        src += 'struct %s {\n    f0: %s,\n    f1: %s\n}\n\n' % (names[i], fld(i, 0), fld(i, 1))
    for u in range(nu):
        src += 'union %s {\n    V%d { g: %s }\n}\n\n' % (names[ns + u], u, fld(ns + u, 0))
    src += 'fn main() -> int {\n    return 0\n}\nshadow main { assert (== (main) 0) }\n'
    tools = e2.build_tools()
    path = os.path.join(outdir, 'replay.nano'); open(path, 'w').write(src)
    outs = {}
    def tun(fillbyte):
        pv = (fillbyte ^ 0xFF) & 0xFF
        if pv == 0: pv = 1          # perturb=0 switches the fill off; 0xFE is the nearest expressible fill byte
        return {'GLIBC_TUNABLES': 'glibc.malloc.tcache_count=0:glibc.malloc.perturb=%d' % pv}
    f0, f1 = inputs.get('in_fill[0]', 0), inputs.get('in_fill[1]', 0xFF)
    # the solver's two fill bytes, plus 0x00 / 0x01 / 0xfe: a bool that is neither 0 nor 1 is read inconsistently by
    # compiled code (gcc turns !b into b^1), so the canonical values are tried as well; the oracle is the property itself
    # (identical output under every fill byte)
    for tag, envx in (('run0_fill%02x' % f0, tun(f0)), ('run1_fill%02x' % f1, tun(f1)), ('fill00', tun(0)), ('fill01', tun(1)), ('fillfe', tun(0xFE))):
        g = path + '.genC'
        if os.path.exists(g): os.remove(g)
        rc, so, se = sh([os.path.join(tools, 'bin', 'nanoc_c'), path, '-o', os.path.join(outdir, 'replay.bin'), '-S'], timeout=120, cwd=tools, env=dict(os.environ, TMPDIR=outdir, **envx))
        txt = open(g).read() if os.path.exists(g) else ''
        outs[tag] = (rc, [l.split()[2] for l in txt.splitlines() if l.startswith('typedef struct nl_')], hashlib.sha256(txt.encode()).hexdigest()[:16])
    open(os.path.join(outdir, 'output.txt'), 'w').write(src + '\n' + '\n'.join('%s: exit=%s definition order=%s sha256=%s' % ((k,) + v) for k, v in outs.items()) + '\n')
    open(os.path.join(outdir, 'cmd.txt'), 'w').write('GLIBC_TUNABLES=glibc.malloc.tcache_count=0:glibc.malloc.perturb=<fill byte ^ 0xFF> nanoc_c replay.nano -o replay.bin -S ; compare replay.nano.genC\n')
    if len(set(v[2] for v in outs.values())) > 1 or len(set(v[0] for v in outs.values())) > 1:
        return True, 'reproduced on the real nanoc_c: generated C differs with the fill byte of fresh heap memory: ' + '; '.join('%s -> %s' % (k, ' '.join(v[1])) for k, v in outs.items())
    return False, 'the real nanoc_c produced identical C under all fill bytes for this graph (the source-level program may not express the counterexample: undefined or unnamed composite fields)'


def main():
    tier = tier_arg(); t0 = time.time()
    ops = c11.opcode_bytes()
    jobs = []
    for b in sorted(ops) if tier == 'thorough' else sorted(ops)[::1]:
        jobs.append(Job(name='c19_isa_encode_det_op%02x' % b, harness='isa_det.c', sources=['src/nanoisa/isa.c'], defines={'OPC': b}, unwind=34,
                        unwindset=['isa_encode.0:5', 'isa_encode.1:5'], timeout=300, group='isa_encode_determinism', must_witness=['determinism done'],
                        desc={'opcode': ops[b], 'symbolic': 'two complete DecodedInstruction objects agreeing only on the operand values the table selects; two different output buffers'}))
    for sh in nvmjobs.shapes(tier):
        jobs.append(nvmjobs.rt_job(sh, 4, tier, 'c19'))
    for (ns, nu) in ([(2, 0), (3, 0), (2, 1), (3, 1)] + ([(4, 0), (4, 1), (3, 2)] if tier == 'thorough' else [])):
        jobs.append(order_job(ns, nu)); jobs.append(order_job(ns, nu, fill=True))
    run_jobs(jobs)
    meta = {
        'functions_encoded': ['isa.c: isa_encode, isa_get_info, isa_operand_size', 'nvm_format.c: nvm_serialize and section writers, nvm_add_* builders',
                              'transpiler.c: generate_struct_and_union_definitions_ordered, find_composite_type_item (definition order of the generated C)'],
        'bounds': {'instructions': 'every defined opcode, all operand values, all contents of unused bytes', 'modules': 'the C10 module shapes, all contents, all values of the stale bookkeeping fields',
                   'definition_order': '2-3 structs (thorough: 4) with 2 fields each and 0-1 unions (thorough: 2), every dependency graph; generic union instantiations not covered'},
        'outside': ['transpile_to_c and codegen_compile as wholes (string-builder code over the full AST, hash-table iteration order there) - NOT decided beyond the definition-order kernel: the module-path dependence a seeding agent built (C19/a) lies in code this technique did not reach in the time available',
                    'diagnostics text, temp-file names, ASLR/env variation of the whole binaries', 'codegen.c emit_op (static function inside the 3000-line code generator TU)'],
        'assumptions': ['allocation does not fail', 'CRC uninterpreted (same bytes => same checksum)'],
        'stubs': ['nvm_crc32 uninterpreted', 'getenv/time/getpid/rand ghosts (must not be called)'],
        'explanation': 'Self-composition: the same function is run on two inputs that agree on every semantically relevant field and are otherwise unconstrained (uninitialised memory = arbitrary in CBMC); the outputs must be byte-identical.',
    }
    sys.exit(finish('C19', tier, 'model_checking', jobs, meta, t0, custom_replay=order_replay))

if __name__ == '__main__':
    main()
