#!/usr/bin/env python3
"""C19 (bytecode serialisation kernels): encoded instructions and .nvm files are functions of the semantic content only."""
import os, sys, time
sys.path.insert(0, os.path.join(os.path.dirname(os.path.abspath(__file__)), '..', 'lib'))
from vlib import *
import nvmjobs, c11

def main():
    tier = tier_arg(); t0 = time.time()
    ops = c11.opcode_bytes()
    jobs = []
    for b in sorted(ops) if tier == 'thorough' else sorted(ops)[::1]:
        jobs.append(Job(name='c19_isa_encode_det_op%02x' % b, harness='isa_det.c', sources=['src/nanoisa/isa.c'], defines={'OPC': b}, unwind=34,
                        unwindset=['isa_encode.0:5', 'isa_encode.1:5'], timeout=300, group='isa_encode_determinism', must_witness=['determinism done'],
                        desc={'opcode': ops[b], 'symbolic': 'two complete DecodedInstruction objects agreeing only on the operand values the table selects; two different output buffers'}))
    for sh in nvmjobs.shapes(tier):
        jobs.append(nvmjobs.rt_job(sh, 4, tier, 'c19'))
    run_jobs(jobs)
    meta = {
        'functions_encoded': ['isa.c: isa_encode, isa_get_info, isa_operand_size', 'nvm_format.c: nvm_serialize and section writers, nvm_add_* builders'],
        'bounds': {'instructions': 'every defined opcode, all operand values, all contents of unused bytes', 'modules': 'the C10 module shapes, all contents, all values of the stale bookkeeping fields'},
        'outside': ['transpile_to_c and codegen_compile as wholes (string-builder code over the full AST, hash-table iteration order there) - NOT decided: the generated-C half of C19 and the module-path/uninitialised-memory dependences the seeding agents built (C19/a, C19/b) lie in code this technique did not reach in the time available',
                    'diagnostics text, temp-file names, ASLR/env variation of the whole binaries', 'codegen.c emit_op (static function inside the 3000-line code generator TU)'],
        'assumptions': ['allocation does not fail', 'CRC uninterpreted (same bytes => same checksum)'],
        'stubs': ['nvm_crc32 uninterpreted', 'getenv/time/getpid/rand ghosts (must not be called)'],
        'explanation': 'Self-composition: the same function is run on two inputs that agree on every semantically relevant field and are otherwise unconstrained (uninitialised memory = arbitrary in CBMC); the outputs must be byte-identical.',
    }
    sys.exit(finish('C19', tier, 'model_checking', jobs, meta, t0))

if __name__ == '__main__':
    main()
