"""E2 program family and job construction (translation validation: generated C vs NanoVM)."""
import os, sys, re, json
sys.path.insert(0, os.path.join(os.path.dirname(os.path.abspath(__file__)), '..', 'lib'))
sys.path.insert(0, os.path.join(os.path.dirname(os.path.abspath(__file__)), '..', 'gen'))
from vlib import *
import e2, vmjobs

TAIL = "shadow %s { assert true }\nfn main() -> int {\n    return 0\n}\nshadow main { assert true }\n"
SAFE_DIV = '!($ == 0)'


def P(name, body, params, ret='int', entry='f', helpers='', unwind=6, tier='quick', kinds=(), note='', hard=False):
    text = helpers + body + (TAIL % entry)
    for h in re.findall(r'^fn (\w+)\(', helpers + body, re.M):
        if h not in (entry, 'main'):
            text = text.replace('shadow %s {' % entry, 'shadow %s { assert true }\nshadow %s {' % (h, entry), 1)
    return {'name': name, 'text': text, 'entry': entry, 'params': params, 'ret': ret, 'unwind': unwind, 'tier': tier, 'kinds': set(kinds), 'note': note, 'hard': hard or bool(re.search(r'\(\s*[*/%] ', body + helpers))}


def family(tier):
    F = []
    ab = [('a', 'int', None), ('b', 'int', None)]
    # --- every binary operator on ints, all operand pairs ---
    for op, nm in (('+', 'add'), ('-', 'sub'), ('*', 'mul')):
        F.append(P('op_' + nm, 'fn f(a: int, b: int) -> int {\n    return (%s a b)\n}\n' % op, ab))
    for op, nm in (('/', 'div'), ('%', 'mod')):
        F.append(P('op_' + nm, 'fn f(a: int, b: int) -> int {\n    return (%s a b)\n}\n' % op,
                   [('a', 'int', None), ('b', 'int', '$ != 0 && !($ == -1 && in_a == INT64_MIN)')], note='division by zero and INT64_MIN/-1 excluded (undefined natively)'))
    for op, nm in (('<', 'lt'), ('<=', 'le'), ('>', 'gt'), ('>=', 'ge'), ('==', 'eq'), ('!=', 'ne')):
        F.append(P('op_' + nm, 'fn f(a: int, b: int) -> bool {\n    return (%s a b)\n}\n' % op, ab, ret='bool'))
    pq = [('p', 'bool', None), ('q', 'bool', None)]
    for op in ('and', 'or'):
        F.append(P('op_' + op, 'fn f(p: bool, q: bool) -> bool {\n    return (%s p q)\n}\n' % op, pq, ret='bool'))
    F.append(P('op_not', 'fn f(p: bool, q: bool) -> bool {\n    return (not p)\n}\n', pq, ret='bool'))
    F.append(P('op_neg', 'fn f(a: int, b: int) -> int {\n    return (- 0 a)\n}\n', ab))
    # --- infix spelling of the same (C07 flavour: same semantics on both backends) ---
    F.append(P('infix_chain', 'fn f(a: int, b: int) -> int {\n    return a + b - 3 + a\n}\n', ab))
    F.append(P('nested_arith', 'fn f(a: int, b: int) -> int {\n    return (- (* a 3) (+ b (- a 7)))\n}\n', ab))
    F.append(P('nested_cmp', 'fn f(a: int, b: int) -> bool {\n    return (and (< a b) (not (== a 5)))\n}\n', ab, ret='bool'))
    F.append(P('mod_right_operand', 'fn f(a: int, b: int) -> int {\n    return (* a (% b 7))\n}\n', ab))
    F.append(P('div_right_operand', 'fn f(a: int, b: int) -> int {\n    return (- a (/ b (+ 2 1)))\n}\n', ab))
    F.append(P('mod_infix', 'fn f(a: int, b: int) -> int {\n    return a * (b % 7)\n}\n', ab))
    # --- effects: evaluation order and short circuit (printing helpers) ---
    G = 'fn g(x: int) -> int {\n    (println x)\n    return (+ x 1)\n}\n'
    GB = 'fn gb(x: bool) -> bool {\n    (println x)\n    return x\n}\n'
    F.append(P('order_binop', 'fn f(a: int, b: int) -> int {\n    return (- (g a) (g b))\n}\n', ab, helpers=G))
    F.append(P('order_args', 'fn h(x: int, y: int) -> int {\n    return (- x y)\n}\nfn f(a: int, b: int) -> int {\n    return (h (g a) (g b))\n}\n', ab, helpers=G))
    F.append(P('short_and', 'fn f(p: bool, q: bool) -> bool {\n    return (and p (gb q))\n}\n', pq, ret='bool', helpers=GB))
    F.append(P('short_or', 'fn f(p: bool, q: bool) -> bool {\n    return (or p (gb q))\n}\n', pq, ret='bool', helpers=GB))
    F.append(P('print_int_bool', 'fn f(a: int, p: bool) -> int {\n    (println a)\n    (print p)\n    (println "x")\n    return a\n}\n', [('a', 'int', None), ('p', 'bool', None)], kinds=('STR',)))
    # --- control flow ---
    F.append(P('if_else', 'fn f(a: int, b: int) -> int {\n    if (< a b) {\n        return (+ a 1)\n    } else {\n        return (- b 2)\n    }\n}\n', ab))
    F.append(P('if_chain', 'fn f(a: int, b: int) -> int {\n    let mut r: int = 0\n    if (< a 0) {\n        set r 1\n    } else {\n        if (== a b) {\n            set r 2\n        } else {\n            set r (+ b 3)\n        }\n    }\n    return r\n}\n', ab))
    small = [('a', 'int', None), ('b', 'int', '$ >= 0 && $ <= 3')]
    F.append(P('while_sum', 'fn f(a: int, b: int) -> int {\n    let mut s: int = a\n    let mut i: int = 0\n    while (< i b) {\n        set s (+ s i)\n        set i (+ i 1)\n    }\n    return s\n}\n', small))
    F.append(P('while_if', 'fn f(a: int, b: int) -> int {\n    let mut s: int = a\n    let mut i: int = 0\n    while (< i b) {\n        if (> s 10) {\n            set s (- s 3)\n        } else {\n            set s (+ s i)\n        }\n        set i (+ i 1)\n    }\n    return s\n}\n', small))
    F.append(P('while_break', 'fn f(a: int, b: int) -> int {\n    let mut s: int = 0\n    let mut i: int = 0\n    while (< i b) {\n        if (== i a) {\n            break\n        }\n        set s (+ s 2)\n        set i (+ i 1)\n    }\n    return s\n}\n', small))
    F.append(P('while_continue', 'fn f(a: int, b: int) -> int {\n    let mut s: int = 0\n    let mut i: int = 0\n    while (< i b) {\n        set i (+ i 1)\n        if (== i a) {\n            continue\n        }\n        set s (+ s i)\n    }\n    return s\n}\n', small))
    F.append(P('for_range', 'fn f(a: int, b: int) -> int {\n    let mut s: int = a\n    for i in (range 0 b) {\n        set s (+ s i)\n    }\n    return s\n}\n', small, tier='noverdict'))
    F.append(P('for_continue', 'fn f(a: int, b: int) -> int {\n    let mut s: int = 0\n    for i in (range 0 b) {\n        if (== i a) {\n            continue\n        }\n        set s (+ s 1)\n    }\n    return s\n}\n', small, tier='noverdict'))
    F.append(P('for_break', 'fn f(a: int, b: int) -> int {\n    let mut s: int = 0\n    for i in (range 0 b) {\n        if (== i a) {\n            break\n        }\n        set s (+ s 1)\n    }\n    return s\n}\n', small, tier='noverdict'))
    # --- scoping ---
    F.append(P('shadow_block', 'fn f(a: int, b: int) -> int {\n    let x: int = a\n    if (< a b) {\n        let x: int = (+ b 100)\n        (println x)\n    }\n    return x\n}\n', ab))
    F.append(P('let_chain', 'fn f(a: int, b: int) -> int {\n    let x: int = (+ a 1)\n    let y: int = (* x 2)\n    let mut z: int = (- y b)\n    set z (+ z x)\n    return z\n}\n', ab))
    # --- calls and recursion ---
    F.append(P('call_two', 'fn sq(x: int) -> int {\n    return (* x x)\n}\nfn f(a: int, b: int) -> int {\n    return (+ (sq a) (sq b))\n}\n', ab))
    rec = [('a', 'int', '$ >= 0 && $ <= 4'), ('b', 'int', None)]
    F.append(P('rec_fact', 'fn fact(n: int) -> int {\n    if (<= n 1) {\n        return 1\n    }\n    return (* n (fact (- n 1)))\n}\nfn f(a: int, b: int) -> int {\n    return (+ (fact a) b)\n}\n', rec, unwind=8, tier='noverdict'))
    F.append(P('rec_fib', 'fn fib(n: int) -> int {\n    if (< n 2) {\n        return n\n    }\n    return (+ (fib (- n 1)) (fib (- n 2)))\n}\nfn f(a: int, b: int) -> int {\n    return (- (fib a) b)\n}\n', [('a', 'int', '$ >= 0 && $ <= 4'), ('b', 'int', None)], unwind=8, tier='noverdict'))
    # --- more control flow / call shapes ---
    abc = [('a', 'int', None), ('b', 'int', None), ('c', 'int', None)]
    F.append(P('three_params', 'fn f(a: int, b: int, c: int) -> int {\n    if (< a b) {\n        return (- c a)\n    }\n    return (+ c b)\n}\n', abc))
    F.append(P('early_return_loop', 'fn f(a: int, b: int) -> int {\n    let mut i: int = 0\n    while (< i b) {\n        if (== i a) {\n            return (+ i 100)\n        }\n        set i (+ i 1)\n    }\n    return (- 0 1)\n}\n', small))
    F.append(P('bool_flag', 'fn f(a: int, b: int) -> int {\n    let mut found: bool = false\n    if (> a b) {\n        set found true\n    }\n    if (and found (> a 0)) {\n        return 1\n    }\n    if (or found (== b 0)) {\n        return 2\n    }\n    return 3\n}\n', ab))
    F.append(P('shadow_depth3', 'fn f(a: int, b: int) -> int {\n    let x: int = a\n    if (< a b) {\n        let x: int = (+ a 10)\n        if (> x 0) {\n            let x: int = (- a b)\n            (println x)\n        }\n        (println x)\n    }\n    return x\n}\n', ab))
    F.append(P('call_chain', 'fn inc(x: int) -> int {\n    return (+ x 1)\n}\nfn twice(x: int) -> int {\n    return (inc (inc x))\n}\nfn f(a: int, b: int) -> int {\n    return (- (twice a) (inc b))\n}\n', ab))
    F.append(P('void_helper', 'fn show(x: int) -> void {\n    (println x)\n}\nfn f(a: int, b: int) -> int {\n    (show a)\n    (show (+ b 1))\n    return (- a b)\n}\n', ab))
    F.append(P('cond_expr', 'fn f(a: int, b: int) -> int {\n    return (cond ((< a 0) (- 0 a)) ((== a b) 0) (else (+ a b)))\n}\n', ab))
    F.append(P('nested_while', 'fn f(a: int, b: int) -> int {\n    let mut s: int = 0\n    let mut i: int = 0\n    while (< i b) {\n        let mut j: int = 0\n        while (< j i) {\n            set s (+ s a)\n            set j (+ j 1)\n        }\n        set i (+ i 1)\n    }\n    return s\n}\n', [('a', 'int', None), ('b', 'int', '$ >= 0 && $ <= 2')], tier='cand'))
    F.append(P('print_in_loop', 'fn f(a: int, b: int) -> int {\n    let mut i: int = 0\n    while (< i b) {\n        (println (+ a i))\n        set i (+ i 1)\n    }\n    return i\n}\n', small))
    F.append(P('cmp_chain_infix', 'fn f(a: int, b: int) -> bool {\n    return (a < b) and (not (a == 0)) or (b > 5)\n}\n', ab, ret='bool'))
    F.append(P('bool_params', 'fn f(p: bool, q: bool) -> int {\n    if p {\n        if q {\n            return 3\n        }\n        return 2\n    }\n    if (not q) {\n        return 0\n    }\n    return 1\n}\n', pq))
    F.append(P('assert_stmt', 'fn f(a: int, b: int) -> int {\n    assert (== (+ a 0) a)\n    return b\n}\n', ab))
    # --- data: strings, arrays, structs, enums, tuples, globals ---
    F.append(P('str_literal', 'fn f(a: int, b: int) -> int {\n    let s: string = "ab"\n    (println s)\n    return (str_length s)\n}\n', ab, tier='quick'))
    F.append(P('char_at_nonascii', 'fn f(a: int, b: int) -> int {\n    let s: string = "h\u00e9"\n    return (+ (char_at s 1) (char_at s 0))\n}\n', ab, tier='quick'))
    F.append(P('str_eq', 'fn f(a: int, b: int) -> bool {\n    let s: string = "ab"\n    let t: string = "ab"\n    return (== s t)\n}\n', ab, ret='bool', tier='quick'))
    F.append(P('str_concat', 'fn f(a: int, b: int) -> int {\n    let s: string = (+ "a" "bc")\n    (println s)\n    return (str_length s)\n}\n', ab, tier='noverdict'))
    idx = [('a', 'int', None), ('b', 'int', '$ >= 0 && $ <= 2')]
    F.append(P('arr_at', 'fn f(a: int, b: int) -> int {\n    let arr: array<int> = [a, 7, 9]\n    return (at arr b)\n}\n', idx, tier='noverdict'))
    F.append(P('arr_len_push', 'fn f(a: int, b: int) -> int {\n    let mut arr: array<int> = [a]\n    set arr (array_push arr b)\n    return (+ (array_length arr) (at arr 1))\n}\n', ab, tier='noverdict'))
    F.append(P('arr_set', 'fn f(a: int, b: int) -> int {\n    let mut arr: array<int> = [1, 2, 3]\n    (array_set arr b a)\n    return (at arr b)\n}\n', idx, tier='noverdict'))
    F.append(P('struct_field', 'struct Pt {\n    x: int,\n    y: int\n}\nfn f(a: int, b: int) -> int {\n    let p: Pt = Pt { x: a, y: b }\n    return (- p.x p.y)\n}\n', ab, tier='noverdict'))
    F.append(P('enum_cmp', 'enum Color {\n    Red,\n    Green,\n    Blue\n}\nfn f(a: int, b: int) -> int {\n    let c: Color = Color.Green\n    if (== c Color.Green) {\n        return a\n    }\n    return b\n}\n', ab, tier='quick'))
    F.append(P('tuple_idx', 'fn f(a: int, b: int) -> int {\n    let t: (int, int) = (a, b)\n    return (- t.0 t.1)\n}\n', ab, tier='noverdict'))
    F.append(P('global_const', 'let K: int = 5\nfn f(a: int, b: int) -> int {\n    return (+ a K)\n}\n', ab, tier='quick'))
    # compile-only members (the driver gives no verdict on struct values): cc acceptance of the generated C is observed
    F.append(P('struct_decl_order', 'struct Figure {\n    edge: Segment\n}\nstruct Segment {\n    a: Point,\n    b: Point\n}\nstruct Point {\n    x: int,\n    y: int\n}\nfn f(a: int, b: int) -> int {\n    let p: Point = Point { x: a, y: b }\n    let q: Point = Point { x: b, y: a }\n    let sg: Segment = Segment { a: p, b: q }\n    let fg: Figure = Figure { edge: sg }\n    return (+ fg.edge.a.x fg.edge.b.x)\n}\n', ab, tier='quick', note='compile-only'))
    F.append(P('shadow_selfref', 'fn f(a: int, b: int) -> int {\n    let x: int = a\n    if (< a b) {\n        let x: int = (+ x 10)\n        (println x)\n    }\n    return x\n}\n', ab, tier='quick', note='compile-only'))
    if tier == 'quick':
        F = [p for p in F if p['tier'] == 'quick']
    elif tier == 'thorough':
        F = [p for p in F if p['tier'] in ('quick', 'thorough')]
    elif tier == 'cand':
        F = [p for p in F if p['tier'] == 'cand']
    return F


def release_bounds(kinds):
    has = lambda *k: any(x in kinds for x in k)
    return ['vm_release:%d' % (2 if kinds else 1), 'val_print:%d' % (2 if has('ARR', 'STRUCT', 'TUPLE', 'UNION') else 1),
            'val_print.0:%d' % (5 if has('ARR') else 1), 'val_print.1:%d' % (4 if has('STRUCT') else 1), 'val_print.2:1', 'val_print.3:1', 'val_print.4:1', 'val_print.5:1',
            'release_hashmap.0:1', 'release_hashmap.1:1', 'release_array.0:%d' % (6 if has('ARR') else 1),
            'release_struct.0:%d' % (4 if has('STRUCT') else 1), 'release_struct.1:%d' % (4 if has('STRUCT') else 1),
            'release_union.0:%d' % (4 if has('UNION') else 1), 'release_tuple.0:%d' % (4 if has('TUPLE') else 1), 'release_closure.0:1',
            'fnv1a.0:14', 'vm_string_new.0:10', 'memcmp.0:14', 'strlen.0:14', 'strnlen.0:14']


_prepared = {}


def prepare(tier, prefix):
    """Build the tools from the working tree, compile every program with them, emit harness + Job. Returns (jobs, report)."""
    key = (tier, prefix)
    if key in _prepared: return _prepared[key]
    val, tab = e2.isa_tables()
    tools = e2.build_tools()
    wd = os.path.join(scratch(), 'e2_' + prefix)
    jobs, report = [], []
    for prog in family(tier):
        r = e2.compile_program(prog, tools, wd, tab)
        compile_only = (prog['note'] == 'compile-only')
        ent = {'program': prog['name'], 'accepted_by_nano_virt': r.get('accepted', False), 'nanoc_rc': r.get('nanoc_rc'), 'notes': r.get('notes', [])}
        if not r.get('accepted') or 'genc' not in r:
            ent['status'] = 'not compiled'; report.append(ent); continue
        if compile_only:
            ent['status'] = 'compile-only: nanoc exit %s' % r.get('nanoc_rc'); ent['cc_rejected'] = (r.get('nanoc_rc') != 0); report.append(ent); continue
        if r['info']['unsupported'] or r['info']['imports']:
            ent['status'] = 'outside the driver (%s)' % r['info']['unsupported']; report.append(ent); continue
        vmtxt = open(r['vmc']).read()
        kinds = set(prog['kinds'])
        for pat, k in (('OP_ARR_', 'ARR'), ('OP_PUSH_STR', 'STR'), ('OP_STR_', 'STR'), ('OP_STRUCT_', 'STRUCT'), ('OP_UNION_', 'UNION'), ('OP_TUPLE_', 'TUPLE'), ('OP_CAST_STRING', 'STR')):
            if pat in vmtxt: kinds.add(k)
        h = os.path.join(wd, prog['name'] + '_h.c')
        e2.make_harness(prog, r['genc'], r['vmc'], r['info'], h)
        ent['status'] = 'checked'; report.append(ent)
        j = Job(name='%s_e2_%s' % (prefix, prog['name']), harness=h,
                sources=vmjobs.VM_SOURCES + ['src/nanoisa/verifier.c'],
                src_defines={'VERIF_VM_STACK': 48, 'VERIF_VM_FRAMES': 8, 'VERIF_VM_GLOBALS': 8},
                src_flags={'src/nanoisa/isa.c': ['-include', os.path.join(VERIF, 'stubs', 'isa_memset.h')]},
                includes=[os.path.join(tools, 'src')], unwind=prog['unwind'],   # driver loops / recursion: program bound + 2
                unwindset=['tr_equal.0:26', 'tr_vformat.0:34', 'tr_vformat.1:8', 'tr_str.0:14', 'isa_decode.0:5'] + release_bounds(kinds) + ['e2_enter.0:6', 'e2_enter.1:%d' % (r['info'].get('max_locals', 12) + 2), 'read_i64.0:9', 'read_f64.0:9', 'write_i64.0:9', 'array_grow.0:2'],
                overflow=False, timeout=1500, flags=['--slice-formula', '--max-field-sensitivity-array-size', str(min(512, max(64, 32 * ((r['info'].get('code_size', 256) + 31) // 32))))], replay='custom',
                must_witness=['both backends'], group='translation_validation',
                desc={'program': prog['name'], 'source': prog['text'], 'entry': prog['entry'],
                      'symbolic_arguments': [{'name': n, 'type': t, 'constraint': c or 'none (all values)'} for (n, t, c) in prog['params']],
                      'note': prog['note'], 'nanoc_exit': r.get('nanoc_rc')})
        j.prog = prog; j.tools = tools; j.workdir = wd
        j.unwindset = j.unwindset + ['verify_function.0:%d' % (r['info']['max_instructions'] + 2), 'nvm_verify.0:%d' % (r['info']['nfunc'] + 2),
                                     'verify_structure.0:%d' % (r['info']['nfunc'] + 2), 'verify_structure.1:2']
        if prog['hard']:
            # 64-bit * / %: SAT gives no verdict (measured: > 20 min). The value equality goes through exported SMT2 (z3 + cvc5);
            # every other assertion of the program (driver labels, C04 clauses, output trace) through SAT with that one compiled out.
            import copy
            js = copy.copy(j); js.name = j.name + '_smt_value'; js.smt = True; js.smt_property = 'return the same value'; js.expect_witness = False; js.must_witness = []
            js.prog = prog; js.tools = tools; js.workdir = wd; js.replay = 'none'
            j.defines = dict(j.defines, NO_RET_CHECK=None); j.name = j.name + '_rest'
            jobs.append(js)
        jobs.append(j)
    _prepared[key] = (jobs, report)
    return jobs, report


def replay(job, failed, inputs, outdir):
    """Native replay: the same function called from main with the solver's arguments, run by the real nanoc-built binary and by
    nano_virt --run; reproduced iff stdout or exit status differ (or either side dies abnormally)."""
    prog, tools = job.prog, job.tools
    def sval(v, bits=64):
        return v - (1 << bits) if v >= (1 << (bits - 1)) else v
    args = []
    for (n, t, c) in prog['params']:
        raw = inputs.get('in_' + n, 0)
        if t == 'int':
            v = sval(raw)
            args.append(str(v) if v >= 0 else ('(- 0 %d)' % (-v) if v != -(1 << 63) else '(- (- 0 9223372036854775807) 1)'))
        else:
            args.append('true' if (raw & 1) else 'false')
    call = '(%s %s)' % (prog['entry'], ' '.join(args))
    body = prog['text'].split('fn main() -> int {')[0]
    if prog['ret'] in ('int', 'bool'):
        main = 'fn main() -> int {\n    (println %s)\n    return 0\n}\nshadow main { assert true }\n' % call
    else:
        main = 'fn main() -> int {\n    %s\n    return 0\n}\nshadow main { assert true }\n' % call
    src = os.path.join(outdir, 'replay.nano')
    open(src, 'w').write(body + main)
    env = dict(os.environ, TMPDIR=outdir)
    rc1, so1, se1 = sh([os.path.join(tools, 'bin', 'nanoc_c'), src, '-o', os.path.join(outdir, 'replay_native')], timeout=300, cwd=tools, env=env)
    if rc1 != 0:
        open(os.path.join(outdir, 'output.txt'), 'w').write('nanoc failed:\n' + (so1 + se1)[-3000:])
        return (True, 'nanoc refuses / cc fails on the replay program (exit %s)' % rc1) if 'C04' in failed['description'] else (False, 'replay program did not compile natively')
    rn, son, sen = sh([os.path.join(outdir, 'replay_native')], timeout=60)
    rv, sov, sev = sh([os.path.join(tools, 'bin', 'nano_virt'), '--run', src], timeout=60, cwd=tools, env=env)
    open(os.path.join(outdir, 'output.txt'), 'w').write('arguments: %s\n--- native exit=%s\n%s\n--- nano_virt --run exit=%s\n%s\n%s\n' % (call, rn, son, rv, sov, sev[-500:]))
    open(os.path.join(outdir, 'cmd.txt'), 'w').write('nanoc_c replay.nano -o replay_native && ./replay_native ; nano_virt --run replay.nano\n')
    if son != sov or rn != rv:
        return True, 'reproduced on the real binaries: native exit=%s stdout=%r, NanoVM exit=%s stdout=%r' % (rn, son[:80], rv, sov[:80])
    return False, 'did not reproduce on the real binaries (both print %r, exit %s)' % (son[:60], rn)


C20_FUNCS = []
def c20_jobs(tier):
    return []


C20_FUNCS = ['generated C helpers emitted by stdlib_runtime.c into every program: nl_fmt_sb_ensure, nl_fmt_sb_append_cstr, nl_fmt_sb_append_char (text taken from the C the real nanoc generated)']
def c20_jobs(tier):
    """Kernels on the runtime text nanoc generates (string builder), from the genC of the simplest family member."""
    val, tab = e2.isa_tables()
    tools = e2.build_tools()
    wd = os.path.join(scratch(), 'e2_c20')
    prog = [p for p in family('quick') if p['name'] == 'op_add'][0]
    r = e2.compile_program(prog, tools, wd, tab)
    jobs = []
    if 'genc' not in r:
        return jobs
    for opk, nm in ((0, 'append_cstr'), (1, 'append_char')):
        for cap in ((8,) if tier == 'quick' else (1, 8, 16)):
            jobs.append(Job(name='c20_genc_sb_%s_cap%d' % (nm, cap), harness='genc_sb.c', sources=[], defines={'GENC_FILE': '"%s"' % r['genc'], 'OPK': opk, 'CAP': cap, 'SMAX': 10},
                            includes=[os.path.join(tools, 'src')], unwind=max(cap, 11) + 2, unwindset=['nl_fmt_sb_ensure.0:8', 'strlen.0:13'], flags=['--slice-formula'],
                            timeout=600, group='generated_runtime_text', must_witness=['append done'], replay='none',
                            desc={'helper': nm, 'capacity': cap, 'symbolic': 'builder length 0..cap-1, old contents, appended text (length 0..10) / character'}))
    return jobs
