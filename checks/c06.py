#!/usr/bin/env python3
"""C06: (a) driver gating - failed shadow tests stop nanoc before any artifact is produced; (b) the real evaluator's
run_shadow_tests on ASTs with symbolic assertion outcomes - it succeeds iff every assertion held."""
import os, sys, time
sys.path.insert(0, os.path.dirname(os.path.abspath(__file__)))
sys.path.insert(0, os.path.join(os.path.dirname(os.path.abspath(__file__)), '..', 'lib'))
from vlib import *
import c05, drvjobs

PRE = {0: 'no loop', 1: 'for i in (range 0 2) { break } first', 2: 'for i in (range 0 2) { continue } first', 3: 'while true { break } first'}

def shadow_job(ns, na, nest, pre):
    return Job(name='c06_shadow_s%d_a%d_n%d_p%d' % (ns, na, nest, pre), harness='shadow_gate.c', sources=[],
               src_defines={'NSHADOW': ns, 'NASSERT': na, 'NEST': nest, 'PRELOOP': pre, 'union': 'struct'},
               unwind=2 * ns + 4, unwindset=['strcmp.0:24'], gen_bodies='keep-libc', flags=['--slice-formula'], overflow=False, timeout=900, replay='custom',
               must_witness=['all passed', 'some failed'], group='shadow_runner',
               desc={'shadow_blocks': ns, 'asserts_per_block': na, 'last_assert_nested_in_if': bool(nest), 'before_the_asserts': PRE[pre],
                     'symbolic': 'truth value of every assert condition (all 2^%d outcome vectors), verbose flag' % (ns * na),
                     'modelling': 'the TU is compiled with -Dunion=struct (AST node / Value unions as structs: CBMC does not track pointers stored in unions); AST statically initialised'})


def shadow_replay(job, failed, inputs, outdir):
    """Replay on the real nanoc: the same shadow blocks as source text; reproduced iff nanoc's exit status disagrees with
    'every assertion held'."""
    sys.path.insert(0, os.path.join(VERIF, 'gen'))
    import e2
    d = job.src_defines; ns, na, nest, pre = d['NSHADOW'], d['NASSERT'], d['NEST'], d['PRELOOP']
    cs = [inputs.get('in_cv[%d]' % k, 1) & 1 for k in range(ns * na)]
    loop = {0: '', 1: '    for i in (range 0 2) {\n        break\n    }\n', 2: '    for i in (range 0 2) {\n        continue\n    }\n', 3: '    while true {\n        break\n    }\n'}[pre]
    src = 'fn f() -> int {\n    return 1\n}\n\n'
    for s in range(ns):
        src += 'shadow f {\n' + loop
        for k in range(na):
            a = '    assert %s\n' % ('true' if cs[s * na + k] else 'false')
            if nest and k == na - 1: a = '    if true {\n    ' + a + '    }\n'
            src += a
        src += '}\n\n'
        if s + 1 < ns: src += 'struct Filler%d {\n    x: int\n}\n\n' % s
    src += 'fn main() -> int {\n    return 0\n}\nshadow main { assert true }\n'
    tools = e2.build_tools()
    p = os.path.join(outdir, 'replay.nano'); open(p, 'w').write(src)
    out = os.path.join(outdir, 'replay_bin')
    rc, so, se = sh([os.path.join(tools, 'bin', 'nanoc_c'), p, '-o', out], timeout=300, cwd=tools, env=dict(os.environ, TMPDIR=outdir))
    allok = all(cs)
    open(os.path.join(outdir, 'output.txt'), 'w').write(src + '\n--- nanoc exit=%s, binary %s\n%s\n' % (rc, 'present' if os.path.exists(out) else 'absent', (so + se)[-1500:]))
    open(os.path.join(outdir, 'cmd.txt'), 'w').write('nanoc_c replay.nano -o replay_bin ; echo $?\n')
    if (rc == 0) != allok or os.path.exists(out) != allok:
        return True, 'reproduced on the real nanoc: assertion outcomes %s, nanoc exit=%s, binary %s' % (cs, rc, 'present' if os.path.exists(out) else 'absent')
    return False, 'did not reproduce on the real nanoc (outcomes %s, exit %s)' % (cs, rc)


def main():
    tier = tier_arg(); t0 = time.time()
    jobs = drvjobs.gate_jobs('c06', tier)
    shapes = [(1, 1, 0, 0), (2, 2, 0, 0), (2, 2, 1, 0), (1, 2, 0, 1), (1, 2, 0, 2), (1, 2, 0, 3), (2, 1, 1, 1)]
    if tier == 'thorough':
        shapes += [(ns, na, nest, pre) for ns in (1, 2) for na in (1, 2) for nest in (0, 1) for pre in (0, 1, 2, 3)]
    seen = set()
    for sh_ in shapes:
        if sh_ not in seen:
            seen.add(sh_); jobs.append(shadow_job(*sh_))
    run_jobs(jobs)
    meta = dict(c05.META)
    meta['functions_encoded'] = list(meta.get('functions_encoded', [])) + ['eval.c: run_shadow_tests, eval_statement (block, assert, if, for, while, break, continue), eval_expression (literals), contains_extern_calls']
    meta['bounds'] = dict(meta.get('bounds', {}), shadow_runner='1-2 shadow blocks (a struct definition between them) x 1-2 assert statements each, last one optionally nested in `if true`, optionally preceded by a for/while loop that breaks or continues; all assertion outcome vectors')
    meta['outside'] = ['assert conditions are literals with symbolic truth values (the evaluation of the condition expression is C03\'s subject); user function calls, let/set and scoping inside shadow bodies; extern-call skipping; the JSON failure report',
                       'the missing-shadow diagnostic of typechecker.c'] + c05.META['outside'][1:]
    meta['stubs'] = list(meta.get('stubs', [])) + ['shadow runner: env_get_function returns a Function without body whose shadow_test is the LAST shadow block (what typechecker.c links), env_define_var appends to a 4-entry table, dup/dup2/open/close/fflush/getenv inert, every other body-less function returns an arbitrary value']
    meta['explanation'] = (meta.get('explanation', '') + ' Shadow runner: the real run_shadow_tests executes statically built shadow bodies whose assert conditions are symbolic; the result must be true iff all conditions are true, and shadow mode must be left afterwards.').strip()
    sys.exit(finish('C06', tier, 'model_checking', jobs, meta, t0, custom_replay=shadow_replay))

if __name__ == '__main__':
    main()
