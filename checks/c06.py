#!/usr/bin/env python3
"""C06 (driver gating): failed shadow tests stop nanoc before any artifact is produced; passing ones let it proceed."""
import os, sys
sys.path.insert(0, os.path.dirname(os.path.abspath(__file__)))
import c05
c05.META = dict(c05.META)
c05.META['outside'] = ['how run_shadow_tests aggregates assertion failures and how AST_ASSERT records them (eval.c): a harness on harness-built ASTs with symbolic assertion values gave no verdict in 600 s (attempts/shadow_gate.c) - NOT decided; the seeded changes C06/a (break flag leaks out of for) and C06/b (last shadow block wins) live there and are NOT detected',
                       'the missing-shadow diagnostic of typechecker.c'] + c05.META['outside'][1:]
if __name__ == '__main__':
    c05.main('C06')
