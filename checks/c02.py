#!/usr/bin/env python3
"""C02 (operator kernels): every NanoVM arithmetic / comparison / logic opcode computes the defined operator."""
import os, sys, time
sys.path.insert(0, os.path.join(os.path.dirname(os.path.abspath(__file__)), '..', 'lib'))
from vlib import *
import vmjobs

def main():
    tier = tier_arg(); t0 = time.time()
    ops = [('OP_ADD', 1, None), ('OP_SUB', 2, None), ('OP_MUL', 3, 'wrapping multiplication'), ('OP_DIV', 4, 'truncates toward zero'),
           ('OP_MOD', 5, 'remainder of truncating'), ('OP_EQ', 6, None), ('OP_NE', 7, None), ('OP_LT', 8, None), ('OP_LE', 9, None), ('OP_GT', 10, None), ('OP_GE', 11, None)]
    jobs = []
    for op, r, smtdesc in ops:
        for kinds in (('INT', 'INT'),):
            j = vmjobs.vm_job('c02', op, kinds, post=10, extra={'REFOP': r}, group='vm_operator_kernels', timeout=300)
            if smtdesc:
                # everything except the arithmetic conjunct through SAT is covered by C13's instance of the same opcode;
                # the arithmetic assertion itself goes through exported SMT2 + z3 + cvc5 (SAT does not finish on 64-bit * / %)
                j.smt = True; j.smt_property = smtdesc; j.expect_witness = False; j.must_witness = []
            jobs.append(j)
    jobs += [vmjobs.vm_job('c02', 'OP_NEG', ('INT',), post=11, extra={'REFOP': 1}, group='vm_operator_kernels'),
             vmjobs.vm_job('c02', 'OP_NOT', ('BOOL',), post=11, extra={'REFOP': 2}, group='vm_operator_kernels'),
             vmjobs.vm_job('c02', 'OP_AND', ('BOOL', 'BOOL'), post=11, extra={'REFOP': 3}, group='vm_operator_kernels'),
             vmjobs.vm_job('c02', 'OP_OR', ('BOOL', 'BOOL'), post=11, extra={'REFOP': 4}, group='vm_operator_kernels')]
    jobs += [vmjobs.vm_job('c02', op, ('FLOAT', 'FLOAT'), post=12, extra={'REFOP': r}, group='vm_operator_kernels')
             for op, r in (('OP_EQ', 6), ('OP_LT', 8), ('OP_LE', 9), ('OP_GT', 10), ('OP_GE', 11))]
    run_jobs(jobs)
    meta = {
        'functions_encoded': ['vm.c: vm_core_execute (one instruction: OP_ADD, OP_SUB, OP_MUL, OP_DIV, OP_MOD, OP_NEG, OP_EQ..OP_GE, OP_AND, OP_OR, OP_NOT), vm_idiv, vm_imod', 'value.c: val_equal, val_compare, val_truthy'],
        'bounds': {'operands': 'ALL pairs of int64 (2^128), both truth values, all float bit patterns (NaN excluded for <= and >=)', 'engine': 'NanoVM only'},
        'outside': ['the native engine and the generated C operators, evaluation order of operands/arguments, short-circuit lowering of and/or in codegen.c (the VM opcodes receive two already evaluated bools), scoping, shadowing: these need program-level translation validation, which was not built (see DESIGN.md section 10) - C02 is claimed for the VM operator kernels only',
                    'the Coq relation: for negative operands Z.div/Z.modulo floor while every engine truncates (known divergence between the "verified" label and the proved semantics, described in DESIGN.md, not decided by a check)'],
        'assumptions': ['reference semantics = docs/SPECIFICATION.md: 64-bit wrapping integers, truncating division, total division by zero = 0 on the VM', 'allocation does not fail'],
        'stubs': ['vsnprintf no-op', 'memset of DecodedInstruction as struct assignment'],
        'backend': 'SAT (cbmc default) for + - compare logic; * / % via cbmc --smt2 export (logic rewritten to ALL) decided by z3 4.8.12 AND cvc5 1.0 (answers must agree)',
        'explanation': 'One real VM instruction on two symbolic operands; result tag and value compared with the reference operator for every operand pair.',
    }
    sys.exit(finish('C02', tier, 'model_checking', jobs, meta, t0))

if __name__ == '__main__':
    main()
