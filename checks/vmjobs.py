"""Job generator for the one-instruction VM harness (vm_step.c): C08 / C13 / C14 / C02 kernels."""
import os, re, sys
sys.path.insert(0, os.path.join(os.path.dirname(os.path.abspath(__file__)), '..', 'lib'))
from vlib import *

K = dict(NONE=0, VOID=1, INT=2, FLOAT=3, BOOL=4, U8=5, ENUM=6, STR=10, ARR_INT=11, ARR_STR=12, STRUCT=13, UNION=14,
         TUPLE=15, CLOSURE=16, HASHMAP=17, HASHMAP_S=18, ALIAS0=20)
VM_SOURCES = ['src/nanovm/vm.c', 'src/nanovm/heap.c', 'src/nanovm/value.c', 'src/nanoisa/isa.c', 'src/nanoisa/nvm_format.c']
VM_REPLAY_SOURCES = VM_SOURCES   # linked with --unresolved-symbols=ignore-all: FFI / builtins are not reachable from one core instruction

_ops = None
def opcodes():
    global _ops
    if _ops is None:
        txt = open(os.path.join(REPO, 'src/nanoisa/isa.h')).read()
        m = re.search(r'typedef enum \{(.*?)\}\s*NanoOpcode;', txt, re.S)
        _ops = {name: int(val, 0) for name, val in re.findall(r'\b(OP_[A-Z0-9_]+)\s*=\s*(0x[0-9A-Fa-f]+|\d+)', m.group(1)) if name != 'OP_COUNT'}
    return _ops

def vm_job(prefix, op, slots=(), l0='NONE', g0='NONE', post=0, audit=False, strict_leak=False, extra=None, alen=2, acap=4,
           timeout=1200, overflow=False, group='vm_step', unwind=18, desc=None):
    """slots: kinds of S0..S2 (bottom..top), names from K or 'ALIAS<n>' (n = slot index 0..4: L0,G0,S0,S1,S2)."""
    def kk(n):
        return K['ALIAS0'] + int(n[5:]) if n.startswith('ALIAS') and n != 'ALIAS0' or n == 'ALIAS0' else K[n]
    d = {'OPC': opcodes()[op], 'NARGS': len(slots), 'K_L0': kk(l0), 'K_G0': kk(g0), 'POST': post, 'ALEN': alen, 'ACAP': acap,
         'VERIF_VM_STACK': 8, 'VERIF_VM_FRAMES': 3, 'VERIF_VM_GLOBALS': 2}
    for i, s in enumerate(slots): d['K_S%d' % i] = kk(s)
    sd = {'VERIF_VM_STACK': 8, 'VERIF_VM_FRAMES': 3, 'VERIF_VM_GLOBALS': 2}
    if audit:
        d['AUDIT'] = None; d['GHOST_FREE'] = None; sd['free'] = 'verif_free'
        if strict_leak: d['STRICT_LEAK'] = None
    if extra: d.update(extra)
    name = '%s%s_%s_%s%s%s%s' % (prefix, '_audit' if audit else '', op[3:].lower(), '-'.join(s.lower() for s in slots) or 'empty',
                               ('_l0' + l0.lower()) if l0 != 'NONE' else '', ('_g0' + g0.lower()) if g0 != 'NONE' else '',
                               ''.join('_%s%s' % (k.lower(), v if v is not None else '') for k, v in sorted((extra or {}).items())))
    kinds = set(list(slots) + [l0, g0])
    has = lambda *ks: any(k in kinds for k in ks)
    # release loops of container kinds that do not exist in this pre-state get bound 1 (unwinding ASSERTION: reported if ever reachable)
    uw = ['isa_decode.0:5', 'vm_release:%d' % (2 if has('ARR_STR', 'STRUCT', 'UNION', 'TUPLE', 'CLOSURE', 'HASHMAP', 'HASHMAP_S') or (extra or {}).get('NEWCONTAINER') else 1 if not has('ARR_INT') else 2),
          'release_hashmap.0:%d' % (6 if has('HASHMAP', 'HASHMAP_S') else 1), 'release_hashmap.1:%d' % (4 if has('HASHMAP', 'HASHMAP_S') else 1),
          'release_array.0:%d' % ((acap + 2) if has('ARR_INT', 'ARR_STR') or (extra or {}).get('NEWCONTAINER') else 1),
          'release_struct.0:%d' % (4 if has('STRUCT') or (extra or {}).get('NEWCONTAINER') else 1), 'release_struct.1:%d' % (4 if has('STRUCT') else 1),
          'release_union.0:%d' % (4 if has('UNION') or (extra or {}).get('NEWCONTAINER') else 1), 'release_tuple.0:%d' % (4 if has('TUPLE') or (extra or {}).get('NEWCONTAINER') else 1),
          'release_closure.0:%d' % (3 if has('CLOSURE') or (extra or {}).get('NEWCONTAINER') else 1)]
    j = Job(name=name, harness='vm_step.c', sources=VM_SOURCES, defines=d, src_defines=sd, unwind=unwind,
            src_flags={'src/nanoisa/isa.c': ['-include', os.path.join(VERIF, 'stubs', 'isa_memset.h')]},
            unwindset=uw, overflow=overflow, timeout=timeout, group=group, must_witness=['step done'],
            replay_sources=VM_REPLAY_SOURCES, replay_libs=[os.path.join(VERIF, 'stubs', 'vm_link_stubs.c')],
            desc=desc or {'opcode': op, 'operand_slots(bottom..top)': list(slots), 'local0': l0, 'global0': g0,
                          'array_len': alen, 'symbolic': 'all immediates, ints, float bits, string bytes, indices, hidden reference counts 0..2',
                          'audit': bool(audit)})
    return j


def imm(*bytes_):
    return {'IMM_FIX%d' % i: b for i, b in enumerate(bytes_) if b is not None}

# opcode -> list of (operand slot kinds bottom..top, extra defines, local0 kind, global0 kind)
def step_table(tier):
    T = []
    def add(op, slots=(), extra=None, l0='NONE', g0='NONE'):
        T.append((op, tuple(slots), dict(extra or {}), l0, g0))
    heapk = ['STR', 'ARR_INT', 'ARR_STR', 'STRUCT', 'UNION', 'TUPLE', 'CLOSURE', 'HASHMAP']
    scal = ['INT', 'FLOAT', 'BOOL', 'VOID']
    for op in ('OP_NOP', 'OP_PUSH_I64', 'OP_PUSH_F64', 'OP_PUSH_BOOL', 'OP_PUSH_VOID', 'OP_PUSH_U8', 'OP_DEBUG_LINE', 'OP_HALT',
               'OP_GC_SCOPE_ENTER', 'OP_GC_SCOPE_EXIT', 'OP_OPAQUE_NULL'):
        add(op)
    add('OP_PUSH_STR', extra=imm(None, 0, 0, 0))
    for k in heapk + ['INT']:
        add('OP_DUP', [k]); add('OP_POP', [k])
        add('OP_LOAD_LOCAL', [], imm(0, 0), l0=k); add('OP_STORE_LOCAL', [k], imm(0, 0), l0='STR')
        add('OP_LOAD_GLOBAL', [], imm(0, 0, 0, 0), g0=k); add('OP_STORE_GLOBAL', [k], imm(0, 0, 0, 0), g0='ARR_STR')
    add('OP_DUP'); add('OP_POP'); add('OP_SWAP'); add('OP_ROT3')
    add('OP_SWAP', ['STR', 'ARR_STR']); add('OP_ROT3', ['STR', 'INT', 'STRUCT'])
    add('OP_LOAD_LOCAL', [], None, l0='STR'); add('OP_STORE_LOCAL', ['STR'], None, l0='ARR_STR')      # symbolic slot index
    add('OP_LOAD_GLOBAL', [], None, g0='STR'); add('OP_STORE_GLOBAL', ['STR'], None, g0='STR')        # symbolic global index
    add('OP_STORE_LOCAL', ['ALIAS0'], imm(0, 0), l0='STR')                                             # store a value into the slot that already holds it
    for k in ('STR', 'INT'):
        add('OP_LOAD_LOCAL', [k], {'SYM_FRAME': None}); add('OP_STORE_LOCAL', [k], {'SYM_FRAME': None})
    add('OP_LOAD_LOCAL', [], {'SYM_FRAME': None}); add('OP_STORE_LOCAL', [], {'SYM_FRAME': None})   # OP_RET with an arbitrary frame base: no verdict (out of memory), outside the bound
    add('OP_LOAD_UPVALUE', [], {'FRAME_CLOSURE': None}, g0='CLOSURE'); add('OP_STORE_UPVALUE', ['STR'], {'FRAME_CLOSURE': None}, g0='CLOSURE')
    add('OP_LOAD_UPVALUE'); add('OP_STORE_UPVALUE', ['STR'])
    arith = ('OP_ADD', 'OP_SUB', 'OP_MUL', 'OP_DIV', 'OP_MOD')
    for op in arith:
        for pair in (('INT', 'INT'), ('FLOAT', 'FLOAT'), ('INT', 'FLOAT'), ('ENUM', 'INT'), ('STR', 'INT'), ('ARR_INT', 'INT'), ('ARR_INT', 'ARR_INT'), ('VOID', 'VOID')):
            add(op, pair)
        add(op)
    add('OP_ADD', ['STR', 'STR']); add('OP_ADD', ['STR', 'ALIAS2']); add('OP_ADD', ['ARR_STR', 'STR']); add('OP_ADD', ['ARR_STR', 'ARR_STR'])
    for k in ('INT', 'FLOAT', 'STR', 'VOID'): add('OP_NEG', [k])
    for op in ('OP_EQ', 'OP_NE', 'OP_LT', 'OP_LE', 'OP_GT', 'OP_GE'):
        for pair in (('INT', 'INT'), ('FLOAT', 'FLOAT'), ('STR', 'STR'), ('BOOL', 'BOOL'), ('STR', 'INT'), ('ARR_INT', 'ARR_INT'), ('STRUCT', 'STRUCT'), ('STR', 'ALIAS2')):
            add(op, pair)
    for op in ('OP_AND', 'OP_OR'):
        for pair in (('BOOL', 'BOOL'), ('STR', 'BOOL'), ('INT', 'ARR_STR')): add(op, pair)
    for k in ('BOOL', 'STR', 'INT', 'VOID'): add('OP_NOT', [k])
    add('OP_JMP')
    for k in ('BOOL', 'INT', 'STR', 'VOID'): add('OP_JMP_TRUE', [k]); add('OP_JMP_FALSE', [k])
    add('OP_CALL', ['STR'], imm(1, 0, 0, 0)); add('OP_CALL', [], imm(1, 0, 0, 0)); add('OP_CALL', ['INT'], None)
    add('OP_CALL_INDIRECT', ['STR', 'CLOSURE']); add('OP_CALL_INDIRECT', ['CLOSURE']); add('OP_CALL_INDIRECT', ['INT']); add('OP_CALL_INDIRECT')
    add('OP_RET', ['STR'], {'FRAMES': 2}, l0='ARR_STR'); add('OP_RET', [], {'FRAMES': 2}, l0='STR'); add('OP_RET', ['INT']); add('OP_RET', ['ARR_STR'], l0='STR')
    add('OP_CLOSURE_NEW', ['STR'], dict(imm(1, 0, 0, 0, 1, 0), NEWCONTAINER=1)); add('OP_CLOSURE_NEW', [], dict(imm(1, 0, 0, 0, 0, 0), NEWCONTAINER=1))
    add('OP_CLOSURE_CALL', ['STR', 'CLOSURE']); add('OP_CLOSURE_CALL', ['INT'])
    add('OP_CALL_EXTERN'); add('OP_CALL_MODULE', ['INT'])
    add('OP_STR_LEN', ['STR']); add('OP_STR_LEN', ['INT']); add('OP_STR_CONCAT', ['STR', 'STR']); add('OP_STR_CONCAT', ['STR', 'INT'])
    add('OP_STR_SUBSTR', ['STR', 'INT', 'INT']); add('OP_STR_CONTAINS', ['STR', 'STR']); add('OP_STR_EQ', ['STR', 'STR']); add('OP_STR_EQ', ['STR', 'ALIAS2'])
    add('OP_STR_CHAR_AT', ['STR', 'INT']); add('OP_STR_FROM_INT', ['INT']); add('OP_STR_FROM_INT', ['STR']); add('OP_STR_FROM_FLOAT', ['FLOAT'])
    add('OP_ARR_NEW', [], {'NEWCONTAINER': 1}); add('OP_ARR_PUSH', ['ARR_STR', 'STR']); add('OP_ARR_PUSH', ['ARR_INT', 'INT']); add('OP_ARR_PUSH', ['INT', 'STR'])
    add('OP_ARR_POP', ['ARR_STR']); add('OP_ARR_POP', ['INT']); add('OP_ARR_GET', ['ARR_STR', 'INT']); add('OP_ARR_GET', ['ARR_INT', 'INT']); add('OP_ARR_GET', ['STR', 'INT'])
    add('OP_ARR_SET', ['ARR_STR', 'INT', 'STR']); add('OP_ARR_SET', ['ARR_INT', 'INT', 'INT']); add('OP_ARR_SET', ['INT', 'INT', 'STR'])
    add('OP_ARR_LEN', ['ARR_STR']); add('OP_ARR_LEN', ['STR']); add('OP_ARR_SLICE', ['ARR_STR', 'INT', 'INT']); add('OP_ARR_SLICE', ['ARR_INT', 'INT', 'INT'])
    add('OP_ARR_REMOVE', ['ARR_STR', 'INT']); add('OP_ARR_REMOVE', ['ARR_INT', 'INT'])
    add('OP_ARR_LITERAL', ['STR', 'STR'], dict(imm(None, 2, 0), NEWCONTAINER=1)); add('OP_ARR_LITERAL', [], dict(imm(None, 0, 0), NEWCONTAINER=1)); add('OP_ARR_LITERAL', ['STR'], dict(imm(None, 2, 0), NEWCONTAINER=1))
    add('OP_STRUCT_NEW', [], {'NEWCONTAINER': 1}); add('OP_STRUCT_GET', ['STRUCT'], imm(1, 0)); add('OP_STRUCT_GET', ['STRUCT'], imm(0, 0)); add('OP_STRUCT_GET', ['STRUCT'], imm(2, 0)); add('OP_STRUCT_GET', ['STR'])
    add('OP_STRUCT_SET', ['STRUCT', 'STR'], imm(1, 0)); add('OP_STRUCT_SET', ['STRUCT', 'STR'], imm(0, 0)); add('OP_STRUCT_SET', ['STRUCT', 'STR'], imm(5, 0)); add('OP_STRUCT_SET', ['INT', 'STR'])
    add('OP_STRUCT_LITERAL', ['STR', 'INT'], dict(imm(None, None, None, None, 2, 0), NEWCONTAINER=1)); add('OP_STRUCT_LITERAL', [], dict(imm(None, None, None, None, 1, 0), NEWCONTAINER=1))
    add('OP_UNION_CONSTRUCT', ['STR'], dict(imm(None, None, None, None, None, None, 1, 0), NEWCONTAINER=1)); add('OP_UNION_CONSTRUCT', [], dict(imm(None, None, None, None, None, None, 0, 0), NEWCONTAINER=1))
    add('OP_UNION_TAG', ['UNION']); add('OP_UNION_TAG', ['STR']); add('OP_UNION_FIELD', ['UNION'], imm(1, 0)); add('OP_UNION_FIELD', ['UNION'], imm(0, 0)); add('OP_UNION_FIELD', ['UNION'], imm(2, 0)); add('OP_UNION_FIELD', ['TUPLE'])
    add('OP_MATCH_TAG', ['UNION']); add('OP_MATCH_TAG', ['INT']); add('OP_ENUM_VAL')
    add('OP_TUPLE_NEW', ['STR', 'INT'], dict(imm(2, 0), NEWCONTAINER=1)); add('OP_TUPLE_NEW', [], dict(imm(0, 0), NEWCONTAINER=1))
    add('OP_TUPLE_GET', ['TUPLE'], imm(1, 0)); add('OP_TUPLE_GET', ['TUPLE'], imm(0, 0)); add('OP_TUPLE_GET', ['TUPLE'], imm(2, 0)); add('OP_TUPLE_GET', ['STRUCT'])
    add('OP_HM_NEW', [], {'NEWCONTAINER': 1}); add('OP_HM_GET', ['HASHMAP', 'INT']); add('OP_HM_GET', ['INT', 'INT']); add('OP_HM_SET', ['HASHMAP', 'INT', 'STR']); add('OP_HM_SET', ['HASHMAP', 'STR', 'STR'])
    add('OP_HM_SET', ['HASHMAP_S', 'STR', 'STR']); add('OP_HM_GET', ['HASHMAP_S', 'STR']); add('OP_HM_DELETE', ['HASHMAP_S', 'STR']); add('OP_HM_HAS', ['HASHMAP_S', 'STR']); add('OP_POP', ['HASHMAP_S'])
    add('OP_HM_HAS', ['HASHMAP', 'INT']); add('OP_HM_DELETE', ['HASHMAP', 'INT']); add('OP_HM_KEYS', ['HASHMAP'], {'NEWCONTAINER': 1}); add('OP_HM_VALUES', ['HASHMAP'], {'NEWCONTAINER': 1}); add('OP_HM_LEN', ['HASHMAP']); add('OP_HM_LEN', ['STR'])
    add('OP_GC_RETAIN', ['STR']); add('OP_GC_RELEASE', ['STR']); add('OP_GC_RELEASE', ['ARR_STR'])
    for k in ('INT', 'FLOAT', 'BOOL', 'STR', 'ARR_STR'):
        add('OP_CAST_INT', [k]); add('OP_CAST_FLOAT', [k]); add('OP_CAST_BOOL', [k]); add('OP_CAST_STRING', [k])
    add('OP_TYPE_CHECK', ['STR']); add('OP_TYPE_CHECK', ['INT'])
    add('OP_PRINT', ['STR']); add('OP_PRINTLN', ['ARR_STR']); add('OP_PRINT', []); add('OP_ASSERT', ['BOOL']); add('OP_ASSERT', ['STR'])
    add('OP_OPAQUE_VALID', ['INT']); add('OP_OPAQUE_VALID', ['STR'])
    known = opcodes()
    covered = {t[0] for t in T}
    missing = sorted(set(known) - covered)
    return [t for t in T if t[0] in known], missing


HEAVY = {('OP_ARR_REMOVE', ('ARR_STR', 'INT')), ('OP_ARR_REMOVE', ('ARR_INT', 'INT')), ('OP_CALL', ('INT',)), ('OP_CALL_INDIRECT', ('STR', 'CLOSURE')), ('OP_CALL_INDIRECT', ('CLOSURE',)), ('OP_STORE_LOCAL', ('STR',), 'ARR_STR'),
         ('OP_ARR_SET', ('ARR_STR', 'INT', 'STR')), ('OP_ARR_SET', ('ARR_INT', 'INT', 'INT'))}
DIVOPS = {'OP_DIV', 'OP_MOD'}

# strict (== instead of >=) reference accounting is not asserted where the operation's meaning is to add a reference, or for ill-typed
# operands the opcode does not consume (hostile bytecode only: a leak, not a safety problem)
NO_STRICT = {('OP_GC_RETAIN', ('STR',)), ('OP_STR_FROM_INT', ('STR',)), ('OP_OPAQUE_VALID', ('STR',))}

def matrix_jobs(prefix, tier, audit, group):
    T, missing = step_table(tier)
    jobs = []
    for (op, slots, ex, l0, g0) in T:
        heavy = (op, slots) in HEAVY or (op, slots, l0) in HEAVY
        if audit and 'SYM_FRAME' in ex:
            continue     # hostile frame bases are C13's subject; the audit variant of these runs out of memory
        if heavy and not ex.get('IMM_FIX0') is not None and not any(k.startswith('FIX_I') for k in ex):   # heavy instances: no verdict within 10 GB in either tier (measured)
            if not (op == 'OP_STORE_LOCAL' and ex):   # the constant-slot store_local variants are cheap
                continue
        jobs.append(vm_job(prefix, op, slots, l0=l0, g0=g0, extra=ex, audit=audit, strict_leak=(audit and (op, slots) not in NO_STRICT), overflow=(op in DIVOPS), group=group,
                           timeout=1200))
    # element stores with a concrete index (cheap: the released element's tag stays a constant)
    for idx in (0, 1, 2, -1):
        jobs.append(vm_job(prefix, 'OP_ARR_REMOVE', ('ARR_STR', 'INT'), extra={'FIX_I3': idx}, audit=audit, strict_leak=audit, group=group))
        jobs.append(vm_job(prefix, 'OP_ARR_REMOVE', ('ARR_INT', 'INT'), extra={'FIX_I3': idx}, audit=audit, strict_leak=audit, group=group))
        jobs.append(vm_job(prefix, 'OP_ARR_SET', ('ARR_STR', 'INT', 'STR'), extra={'FIX_I3': idx}, audit=audit, strict_leak=audit, group=group))
        jobs.append(vm_job(prefix, 'OP_ARR_SET', ('ARR_INT', 'INT', 'INT'), extra={'FIX_I3': idx}, audit=audit, strict_leak=audit, group=group))
    seen = set(); jobs = [j for j in jobs if not (j.name in seen or seen.add(j.name))]
    return jobs, missing
