"""Job generator for the one-instruction VM harness (vm_step.c): C08 / C13 / C14 / C02 kernels."""
import os, re, sys
sys.path.insert(0, os.path.join(os.path.dirname(os.path.abspath(__file__)), '..', 'lib'))
from vlib import *

K = dict(NONE=0, VOID=1, INT=2, FLOAT=3, BOOL=4, U8=5, ENUM=6, STR=10, ARR_INT=11, ARR_STR=12, STRUCT=13, UNION=14,
         TUPLE=15, CLOSURE=16, HASHMAP=17, ALIAS0=20)
VM_SOURCES = ['src/nanovm/vm.c', 'src/nanovm/heap.c', 'src/nanovm/value.c', 'src/nanoisa/isa.c', 'src/nanoisa/nvm_format.c']
VM_REPLAY_SOURCES = VM_SOURCES   # linked with --unresolved-symbols=ignore-all: FFI / builtins are not reachable from one core instruction

_ops = None
def opcodes():
    global _ops
    if _ops is None:
        txt = open(os.path.join(REPO, 'src/nanoisa/isa.h')).read()
        m = re.search(r'typedef enum \{(.*?)\}\s*NanoOpcode;', txt, re.S)
        _ops = {name: int(val, 0) for name, val in re.findall(r'\b(OP_[A-Z0-9_]+)\s*=\s*(0x[0-9A-Fa-f]+|\d+)', m.group(1)) if name != 'OP_COUNT'}
    return _ops

def vm_job(prefix, op, slots=(), l0='NONE', g0='NONE', post=0, audit=False, strict_leak=False, extra=None, alen=2, acap=4,
           timeout=300, overflow=False, group='vm_step', unwind=12, desc=None):
    """slots: kinds of S0..S2 (bottom..top), names from K or 'ALIAS<n>' (n = slot index 0..4: L0,G0,S0,S1,S2)."""
    def kk(n):
        return K['ALIAS0'] + int(n[5:]) if n.startswith('ALIAS') and n != 'ALIAS0' or n == 'ALIAS0' else K[n]
    d = {'OPC': opcodes()[op], 'NARGS': len(slots), 'K_L0': kk(l0), 'K_G0': kk(g0), 'POST': post, 'ALEN': alen, 'ACAP': acap,
         'VERIF_VM_STACK': 8, 'VERIF_VM_FRAMES': 3, 'VERIF_VM_GLOBALS': 2}
    for i, s in enumerate(slots): d['K_S%d' % i] = kk(s)
    sd = {'VERIF_VM_STACK': 8, 'VERIF_VM_FRAMES': 3, 'VERIF_VM_GLOBALS': 2}
    if audit:
        d['AUDIT'] = None; d['GHOST_FREE'] = None; sd['free'] = 'verif_free'
        if strict_leak: d['STRICT_LEAK'] = None
    if extra: d.update(extra)
    name = '%s%s_%s_%s%s%s%s' % (prefix, '_audit' if audit else '', op[3:].lower(), '-'.join(s.lower() for s in slots) or 'empty',
                               ('_l0' + l0.lower()) if l0 != 'NONE' else '', ('_g0' + g0.lower()) if g0 != 'NONE' else '',
                               ''.join('_%s%s' % (k.lower(), v if v is not None else '') for k, v in sorted((extra or {}).items())))
    kinds = set(list(slots) + [l0, g0])
    has = lambda *ks: any(k in kinds for k in ks)
    # release loops of container kinds that do not exist in this pre-state get bound 1 (unwinding ASSERTION: reported if ever reachable)
    uw = ['isa_decode.0:5', 'vm_release:%d' % (2 if has('ARR_STR', 'STRUCT', 'UNION', 'TUPLE', 'CLOSURE', 'HASHMAP') or (extra or {}).get('NEWCONTAINER') else 1 if not has('ARR_INT') else 2),
          'release_hashmap.0:%d' % (4 if has('HASHMAP') else 1), 'release_hashmap.1:%d' % (3 if has('HASHMAP') else 1),
          'release_array.0:%d' % ((acap + 2) if has('ARR_INT', 'ARR_STR') or (extra or {}).get('NEWCONTAINER') else 1),
          'release_struct.0:%d' % (4 if has('STRUCT') or (extra or {}).get('NEWCONTAINER') else 1), 'release_struct.1:%d' % (4 if has('STRUCT') else 1),
          'release_union.0:%d' % (4 if has('UNION') or (extra or {}).get('NEWCONTAINER') else 1), 'release_tuple.0:%d' % (4 if has('TUPLE') or (extra or {}).get('NEWCONTAINER') else 1),
          'release_closure.0:%d' % (3 if has('CLOSURE') or (extra or {}).get('NEWCONTAINER') else 1)]
    j = Job(name=name, harness='vm_step.c', sources=VM_SOURCES, defines=d, src_defines=sd, unwind=unwind,
            unwindset=uw, overflow=overflow, timeout=timeout, group=group, must_witness=['step done'],
            replay_sources=VM_REPLAY_SOURCES, replay_libs=['-Wl,--unresolved-symbols=ignore-all'],
            desc=desc or {'opcode': op, 'operand_slots(bottom..top)': list(slots), 'local0': l0, 'global0': g0,
                          'array_len': alen, 'symbolic': 'all immediates, ints, float bits, string bytes, indices, hidden reference counts 0..2',
                          'audit': bool(audit)})
    return j
