#!/usr/bin/env python3
"""C08: out-of-range operations stop the program on all three engines (VM step kernels, native runtime, evaluator)."""
import os, sys, time
sys.path.insert(0, os.path.join(os.path.dirname(os.path.abspath(__file__)), '..', 'lib'))
from vlib import *
import vmjobs, dynjobs

def eval_jobs(tier):
    jobs = []
    for op, nm, st in ((1, 'at', 0), (1, 'at', 1), (2, 'set', 1), (3, 'pop', 0), (4, 'remove', 0)):
        for alen in ((0, 3) if tier == 'quick' else (0, 1, 3, 5)):
            if nm == 'pop' or alen > 0 or True:
                returns = (alen > 0)
                jobs.append(Job(name='c08_eval_%s_%s_len%d' % (nm, 'static' if st else 'dyn', alen), harness='eval_c08.c',
                                sources=['src/runtime/dyn_array.c'], defines={'OP': op, 'STATIC_ARRAY': st, 'ALEN': alen}, unwind=alen + 3,
                                timeout=300, expect_witness=returns, must_witness=(['returned'] if returns else []), replay='none', group='evaluator',
                                desc={'engine': 'tree-walking evaluator (eval.c builtin_%s)' % nm, 'array': 'static' if st else 'dynamic', 'length': alen,
                                      'symbolic': 'index (any int64), element values, stored value'}))
    return jobs

def vm_c08_jobs(tier):
    jobs = []
    lens = (0, 1, 3) if tier == 'quick' else (0, 1, 2, 3, 4)
    for n in lens:
        cap = max(4, n)
        jobs.append(vmjobs.vm_job('c08', 'OP_ARR_GET', ('ARR_INT', 'INT'), post=1, alen=n, acap=cap, extra={'TAGLEN': n}, group='vm_oob'))
        jobs.append(vmjobs.vm_job('c08', 'OP_ARR_SET', ('ARR_INT', 'INT', 'INT'), post=2, alen=n, acap=cap, extra={'TAGLEN': n}, group='vm_oob'))
        jobs.append(vmjobs.vm_job('c08', 'OP_ARR_POP', ('ARR_INT',), post=3, alen=n, acap=cap, extra={'TAGLEN': n}, group='vm_oob'))
        jobs.append(vmjobs.vm_job('c08', 'OP_ARR_REMOVE', ('ARR_INT', 'INT'), post=4, alen=n, acap=cap, extra={'TAGLEN': n}, group='vm_oob'))
    jobs.append(vmjobs.vm_job('c08', 'OP_ARR_GET', ('ARR_STR', 'INT'), alen=2, audit=True, group='vm_oob'))
    jobs.append(vmjobs.vm_job('c08', 'OP_STRUCT_GET', ('STRUCT',), post=5, group='vm_oob'))
    jobs.append(vmjobs.vm_job('c08', 'OP_UNION_FIELD', ('UNION',), post=5, group='vm_oob'))
    jobs.append(vmjobs.vm_job('c08', 'OP_TUPLE_GET', ('TUPLE',), post=5, group='vm_oob'))
    jobs.append(vmjobs.vm_job('c08', 'OP_STRUCT_SET', ('STRUCT', 'INT'), post=6, group='vm_oob'))
    return jobs

def main():
    tier = tier_arg(); t0 = time.time()
    jobs = vm_c08_jobs(tier) + dynjobs.c08_dyn_jobs('c08', tier) + eval_jobs(tier)
    run_jobs(jobs)
    meta = {
        'functions_encoded': ['vm.c: vm_core_execute (one instruction: OP_ARR_GET/SET/POP/REMOVE, OP_STRUCT_GET/SET, OP_UNION_FIELD, OP_TUPLE_GET) + heap.c, value.c, isa.c',
                              'runtime/dyn_array.c: dyn_array_get_*/set_*/remove_at, get_struct/set_struct (all element kinds)',
                              'eval.c: builtin_at, builtin_array_set, builtin_array_pop, builtin_array_remove_at'],
        'bounds': {'array lengths': 'VM 0..3 (thorough 0..4), native capacity 4 with symbolic length 0..4, evaluator 0 and 3',
                   'index': 'every int64 (incl. negative, n, 2^32+k, INT64_MIN/MAX)', 'field index': 'every u16 immediate'},
        'outside': ['whole programs reaching these operations (C01/C04 program family)', 'arrays longer than the bounds',
                    'generated-C wrappers nl_array_at_* (thin calls into dyn_array_*, read but not encoded)'],
        'assumptions': ['the repository assert() aborts the native process (stub <assert.h> ends the path)', 'exit() ends the evaluator process',
                        'allocation does not fail'],
        'stubs': ['assert.h', 'exit', 'fprintf/vsnprintf (no formatting semantics)', 'env.c create_int/create_void transcribed in the evaluator harness'],
        'explanation': 'For each engine and operation: index outside [0,n) => the operation does not return normally (VM: TRAP_ERROR with non-zero code; native: assert; evaluator: exit) and no element changed; inside => the documented element/update. All indices symbolic.',
    }
    sys.exit(finish('C08', tier, 'model_checking', jobs, meta, t0))

if __name__ == '__main__':
    main()
