#!/usr/bin/env python3
"""C03 (operator kernel): the compile-time evaluator's operators agree with the compiled operators for all operand values."""
import os, sys, time
sys.path.insert(0, os.path.join(os.path.dirname(os.path.abspath(__file__)), '..', 'lib'))
from vlib import *

OPS = [  # (token, name, nargs, bools, divlike, reference check, smt?)
    ('TOKEN_PLUS', 'add', 2, 0, 0, 'r.type == VAL_INT && r.as.int_val == (long long)((uint64_t)a + (uint64_t)b)', False),
    ('TOKEN_MINUS', 'sub', 2, 0, 0, 'r.type == VAL_INT && r.as.int_val == (long long)((uint64_t)a - (uint64_t)b)', False),
    ('TOKEN_STAR', 'mul', 2, 0, 0, 'r.type == VAL_INT && r.as.int_val == (long long)((uint64_t)a * (uint64_t)b)', True),
    ('TOKEN_SLASH', 'div', 2, 0, 1, 'r.type == VAL_INT && r.as.int_val == a / b', True),
    ('TOKEN_PERCENT', 'mod', 2, 0, 1, 'r.type == VAL_INT && r.as.int_val == a % b', True),
    ('TOKEN_MINUS', 'neg', 1, 0, 0, 'r.type == VAL_INT && r.as.int_val == (long long)(0 - (uint64_t)a)', False),
    ('TOKEN_EQ', 'eq', 2, 0, 0, 'r.type == VAL_BOOL && r.as.bool_val == (a == b)', False),
    ('TOKEN_NE', 'ne', 2, 0, 0, 'r.type == VAL_BOOL && r.as.bool_val == (a != b)', False),
    ('TOKEN_LT', 'lt', 2, 0, 0, 'r.type == VAL_BOOL && r.as.bool_val == (a < b)', False),
    ('TOKEN_LE', 'le', 2, 0, 0, 'r.type == VAL_BOOL && r.as.bool_val == (a <= b)', False),
    ('TOKEN_GT', 'gt', 2, 0, 0, 'r.type == VAL_BOOL && r.as.bool_val == (a > b)', False),
    ('TOKEN_GE', 'ge', 2, 0, 0, 'r.type == VAL_BOOL && r.as.bool_val == (a >= b)', False),
    ('TOKEN_AND', 'and', 2, 1, 0, 'r.type == VAL_BOOL && r.as.bool_val == (p && q)', False),
    ('TOKEN_OR', 'or', 2, 1, 0, 'r.type == VAL_BOOL && r.as.bool_val == (p || q)', False),
    ('TOKEN_NOT', 'not', 1, 1, 0, 'r.type == VAL_BOOL && r.as.bool_val == (!p)', False),
    ('TOKEN_EQ', 'eq_bool', 2, 1, 0, 'r.type == VAL_BOOL && r.as.bool_val == (p == q)', False),
]

def jobs(tier):
    out = []
    for tok, nm, nargs, bools, divlike, ref, smt in OPS:
        j = Job(name='c03_evalop_%s' % nm, harness='eval_ops.c', sources=[], defines={'OPK': tok, 'NARGS': nargs, 'BOOLS': bools, 'DIVLIKE': divlike, 'REF_CHECK': '"(%s)"' % ref if False else None},
                unwind=6, gen_bodies='keep-libc', flags=['--slice-formula'], overflow=False, timeout=600, replay='none', must_witness=['evaluated'], group='evaluator_operator_kernels',
                desc={'operator': nm, 'symbolic': 'both operands (all int64 pairs / both truth values)', 'reference': ref})
        j.defines = {'OPK': tok, 'NARGS': nargs, 'BOOLS': bools, 'DIVLIKE': divlike}
        j.extra_cflags = ['-DREF_CHECK=(%s)' % ref]
        if smt:
            j.smt = True; j.smt_property = 'same value as the compiled operator'; j.expect_witness = False; j.must_witness = []
        out.append(j)
    return out

CALLS = [  # (builtin, signature 1=(int) 2=(int int) 3=(string int), bool result, abs-like precondition)
    ('char_at', 3, 0, 0), ('is_digit', 1, 1, 0), ('is_alpha', 1, 1, 0), ('is_alnum', 1, 1, 0), ('is_whitespace', 1, 1, 0), ('is_upper', 1, 1, 0), ('is_lower', 1, 1, 0),
    ('digit_value', 1, 0, 0), ('char_to_lower', 1, 0, 0), ('char_to_upper', 1, 0, 0), ('abs', 1, 0, 1), ('min', 2, 0, 0), ('max', 2, 0, 0),
    ('str_equals', 4, 1, 0), ('str_length', 5, 0, 0),      # str_contains: both sides call strstr, for which CBMC has no model
]

def call_jobs(tier):
    sys.path.insert(0, os.path.join(VERIF, 'gen'))
    import e2, e2jobs
    val, tab = e2.isa_tables(); tools = e2.build_tools()
    prog = [p for p in e2jobs.family('quick') if p['name'] == 'op_add'][0]
    r = e2.compile_program(prog, tools, os.path.join(scratch(), 'c03'), tab)
    out = []
    if 'genc' not in r:
        return out, tools
    for nm, sig, rbool, abslike in CALLS:
        for sl in ((3,) if (tier == 'quick' or sig not in (3, 4, 5)) else ((1, 3, 6) if sig == 3 else (3, 5))):
            j = Job(name='c03_evalcall_%s%s' % (nm, '_len%d' % sl if sig in (3, 4, 5) else ''), harness='eval_calls.c', sources=['src/eval/eval_math.c', 'src/eval/eval_string.c'] + (['src/runtime/nl_string.c'] if sig in (4, 5) else []),
                    extra_sources=[os.path.join(VERIF, 'harness', 'genc_ref.c')],
                    src_defines={'SIG': sig, 'RBOOL': rbool, 'ABSLIKE': abslike, 'SL': sl, 'GENC_FILE': '"%s"' % r['genc'], 'REF': 'ref_' + nm}, extra_cflags=['-DCALLNAME="%s"' % nm],
                    includes=[os.path.join(tools, 'src')], unwind=sl + 4, unwindset=['strcmp.0:24'], gen_bodies='keep-libc', flags=['--slice-formula'], overflow=False, timeout=600,
                    replay='custom', must_witness=['evaluated'], group='evaluator_builtin_kernels',
                    desc={'builtin': nm, 'symbolic': {1: 'the int argument (all 2^64 values)', 2: 'both int arguments', 3: 'string of %d arbitrary non-NUL bytes, index in range' % sl, 4: 'two strings of length 0..%d, arbitrary bytes' % sl, 5: 'string of length 0..%d, arbitrary bytes' % sl}[sig],
                          'reference': 'the helper the real nanoc wrote into generated C for this builtin (harness/genc_ref.c includes the generated file)'})
            j.call = (nm, sig, rbool); j.tools = tools
            out.append(j)
    return out, tools


def call_replay(job, failed, inputs, outdir):
    """Replay on the real binaries: a program whose shadow test asserts that the builtin applied to the solver's argument
    equals what the natively compiled program prints for it; reproduced iff nanoc (whose evaluator runs the shadow test)
    reports the shadow test as failed."""
    nm, sig, rbool = job.call; tools = job.tools
    def sval(v): return v - (1 << 64) if v >= (1 << 63) else v
    def lit(v):
        v = sval(v)
        return str(v) if v >= 0 else ('(- 0 %d)' % (-v) if v != -(1 << 63) else '(- (- 0 9223372036854775807) 1)')
    if sig in (4, 5):
        return False, 'string-only builtins are not replayed'
    if sig == 3:
        sl = job.src_defines['SL']; idx = sval(inputs.get('in_b', 0))
        bs = [inputs.get('in_sbuf[%d]' % k, 97) & 0xFF for k in range(sl)]
        for k in range(sl):      # bytes the lexer treats specially are replaced where the index does not select them
            if bs[k] in (0, 0x22, 0x5c, 0x0a, 0x0d):
                if k == idx: return False, 'the selected byte has no spelling inside a string literal'
                bs[k] = 97
        args = '"' + bytes(bs).decode('latin-1') + '" ' + lit(inputs.get('in_b', 0))
    else:
        args = ' '.join([lit(inputs.get('in_a', 0))] + ([lit(inputs.get('in_b', 0))] if sig == 2 else []))
    rt = 'bool' if rbool else 'int'
    def prog(expect):
        return ('fn f() -> %s {\n    return (%s %s)\n}\nshadow f { assert %s }\nfn main() -> int {\n    (println (f))\n    return 0\n}\nshadow main { assert true }\n'
                % (rt, nm, args, expect))
    env = dict(os.environ, TMPDIR=outdir)
    p1 = os.path.join(outdir, 'native_value.nano'); open(p1, 'w', encoding='latin-1').write(prog('true'))
    rc, so, se = sh([os.path.join(tools, 'bin', 'nanoc_c'), p1, '-o', os.path.join(outdir, 'native_value')], timeout=300, cwd=tools, env=env)
    if rc != 0:
        return False, 'the probe program did not compile: ' + (so + se)[-300:]
    rn, son, sen = sh([os.path.join(outdir, 'native_value')], timeout=60)
    nat = son.strip().splitlines()[0] if son.strip() else ''
    p2 = os.path.join(outdir, 'replay.nano'); open(p2, 'w', encoding='latin-1').write(prog('(== (f) %s)' % (nat if nat in ('true', 'false') or not nat.startswith('-') else '(- 0 %s)' % nat[1:])))
    rc2, so2, se2 = sh([os.path.join(tools, 'bin', 'nanoc_c'), p2, '-o', os.path.join(outdir, 'replay_bin')], timeout=300, cwd=tools, env=env)
    open(os.path.join(outdir, 'output.txt'), 'w', encoding='latin-1').write('(%s %s): the natively compiled program prints %s\n--- nanoc on a shadow test asserting exactly that value: exit=%s\n%s\n' % (nm, args, nat, rc2, (so2 + se2)[-1500:]))
    open(os.path.join(outdir, 'cmd.txt'), 'w').write('nanoc_c native_value.nano -o native_value && ./native_value ; nanoc_c replay.nano -o replay_bin   # shadow test asserts the native value\n')
    if rc2 != 0 and 'FAILED' in (so2 + se2):
        return True, 'reproduced on the real nanoc: native (%s %s) = %s, but the shadow test asserting that value FAILS in the compile-time evaluator' % (nm, args, nat)
    return False, 'did not reproduce: shadow test asserting the native value %s passes' % nat


def main():
    tier = tier_arg(); t0 = time.time()
    js = jobs(tier)
    cj, tools = call_jobs(tier)
    js += cj
    run_jobs(js)
    meta = {
        'functions_encoded': ['eval.c: eval_prefix_op, eval_call (builtin dispatch + the inline character builtins), eval_expression (literal arms), is_truthy',
                              'eval/eval_math.c: builtin_abs/min/max', 'generated C (real nanoc output): char_at, is_digit, is_alpha, is_alnum, is_whitespace, is_upper, is_lower, digit_value, char_to_lower, char_to_upper, nl_abs, nl_min, nl_max'],
        'bounds': {'operators': '16 operator/arity instances on int and bool literals', 'operands': 'all int64 pairs (x / 0 and INT64_MIN / -1 excluded), both truth values',
                   'builtins': '%d builtin calls on literal arguments: all int64 arguments; char_at on strings of 3 (thorough 1, 3, 6) arbitrary bytes, index in range' % len(CALLS)},
        'outside': ['everything above single operators and single builtin calls on literals: statements, user function calls, scoping, string construction, arrays, hashmaps (seed C03/a), printing; the VM side of C03 (covered against native by C01/C02)',
                    'float operators'],
        'assumptions': ['reference = the C operators the native backend emits (64-bit wrap, truncating division)', 'functions without a body return arbitrary values (not reached for literal operands)'],
        'stubs': ['env.c create_int/create_bool/create_void/create_string transcribed (no string copy)', 'env_get_var / env_get_function return NULL (no user symbol shadows the builtin)', 'exit, fprintf', 'every other body-less function returns an arbitrary value (not reached for literal operands)'],
        'backend': 'SAT; * / % via exported SMT2 decided by z3 and cvc5',
        'explanation': 'The evaluator is run on a prefix-operator node whose two operands are literal nodes with symbolic values; its result value must equal the compiled operator\'s for every operand pair.',
    }
    sys.exit(finish('C03', tier, 'model_checking', js, meta, t0, custom_replay=call_replay))

if __name__ == '__main__':
    main()
