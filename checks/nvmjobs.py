"""Job generators for the nvm_format harness family (C10 round trip, C12 damage, C13 loader)."""
import os, sys
sys.path.insert(0, os.path.join(os.path.dirname(os.path.abspath(__file__)), '..', 'lib'))
from vlib import *

def shape_name(sh):
    return 's%s_c%d_f%d_d%d_i%s' % ('-'.join(map(str, sh['slens'])) or '0', sh['ncode'], sh['nfunc'], sh['ndbg'],
                                     '-'.join(map(str, sh['ipcs'])) or '0')

def filemax(sh):
    nsec = sum(1 for x in (sh['slens'], sh['ncode'], sh['nfunc'], sh['ndbg'], sh['ipcs']) if x)
    data = sum(4 + l for l in sh['slens']) + sh['ncode'] + 18 * sh['nfunc'] + 8 * sh['ndbg'] + sum(11 + p for p in sh['ipcs'])
    return 32 + 12 * nsec + data

def shapes(tier):
    out = []
    def S(slens=(), ncode=0, nfunc=0, ndbg=0, ipcs=()):
        out.append({'slens': list(slens), 'ncode': ncode, 'nfunc': nfunc, 'ndbg': ndbg, 'ipcs': list(ipcs)})
    S()                                   # empty module
    S(slens=(0,))                         # one empty string (pool ends with a bare length prefix)
    S(slens=(2, 0))                       # empty string last
    S(slens=(0, 0))                       # duplicate (empty) string: de-duplication on insert and on reload; non-empty duplicates make the file size symbolic -> no verdict (measured), outside the bound
    S(slens=(1, 2, 3), ncode=3, nfunc=1)
    S(ncode=6, nfunc=2)
    S(slens=(2,), ncode=2, nfunc=1, ndbg=1, ipcs=(0,))
    S(slens=(1,), ipcs=(2, 1))
    S(ndbg=2)
    if tier == 'thorough':
        for slens in ((), (0,), (3,), (0, 0), (2, 1), (0, 1, 0), (1, 2, 3)):
            for ncode in (0, 1, 5):
                for nfunc in (0, 1, 2):
                    for ndbg in (0, 2):
                        for ipcs in ((), (0,), (1, 2)):
                            S(slens, ncode, nfunc, ndbg, ipcs)
    seen, uniq = set(), []
    for s in out:
        k = shape_name(s)
        if k not in seen:
            seen.add(k); uniq.append(s)
    return uniq

MODES = {0: 'roundtrip', 1: 'truncate', 2: 'extend', 3: 'hdrdamage', 4: 'determinism'}

def rt_job(sh, mode, tier, prefix):
    fm = filemax(sh)
    d = {'NSTR': len(sh['slens']), 'NCODE': sh['ncode'], 'NFUNC': sh['nfunc'], 'NDBG': sh['ndbg'], 'NIMP': len(sh['ipcs']),
         'MODE': mode, 'FILEMAX': fm, 'CRC_LOG_BYTES': fm + 8, 'TAILMAX': 4}
    for i, l in enumerate(sh['slens']): d['SLEN%d' % i] = l
    if len(sh['slens']) == 2 and sh['slens'][0] == sh['slens'][1] and sh['slens'][0] > 0 and False: d['DUP01'] = None
    for i, p in enumerate(sh['ipcs']): d['IPC%d' % i] = p
    real_crc = False
    if not real_crc:
        d['CRC_ABSTRACT'] = None
    j = Job(name='%s_%s_%s' % (prefix, MODES[mode], shape_name(sh)), harness='nvm_rt.c', sources=['src/nanoisa/nvm_format.c'],
            defines=d, unwind=fm + 14, unwindset=['crc32_init.0:9', 'crc32_init.1:257', 'memcmp.0:%d' % (max(sh['slens'] + [0]) + 2)],
            unwind_by_func={'nvm_add_string': [len(sh['slens']) + 2], 'string_pool_size': [len(sh['slens']) + 2],
                            'serialize_string_pool': [len(sh['slens']) + 2], 'serialize_functions': [sh['nfunc'] + 2],
                            'serialize_debug': [sh['ndbg'] + 2], 'serialize_imports': [len(sh['ipcs']) + 2], 'import_section_size': [len(sh['ipcs']) + 2],
                            'nvm_deserialize': [7, len(sh['slens']) + 2, sh['nfunc'] + 2, sh['ndbg'] + 2, len(sh['ipcs']) + 2]},
            src_remove_bodies=([] if real_crc else ['nvm_crc32']),
            flags=['--max-field-sensitivity-array-size', '256'],
            timeout=1200, group='nvm_' + MODES[mode], must_witness=['done'],
            desc={'shape': sh, 'mode': MODES[mode], 'file_bytes_max': fm,
                  'symbolic': 'all string bytes, code bytes, function/debug/import fields, flags, entry point'
                              + ({1: ', truncation length', 2: ', tail length 1..4 and tail bytes', 3: ', damaged header byte and xor mask'}.get(mode, '')),
                  'crc': 'real nvm_crc32' if real_crc else 'uninterpreted function (any value, equal inputs => equal value)'})
    return j

SECNAMES = {1: 'code', 2: 'strings', 3: 'functions', 8: 'imports', 9: 'debug', 4: 'structs', 0x7777: 'unknown'}

def loader_instances(tier):
    """(file size, [(type, offset|None, size|None)...]); None = symbolic directory fields."""
    inst = []
    for size in ([0, 16, 31, 32, 40] if tier == 'quick' else [0, 1, 16, 31, 32, 33, 40, 43]):
        inst.append((size, []))
    # directory arithmetic with fully symbolic offset/size (section content is skipped for these types)
    for t in (4, 0x7777):
        for b in (0, 12):
            inst.append((44 + b, [(t, None, None)]))
    inst.append((56 + 8, [(4, None, None), (0x7777, None, None)]))
    # a directory that does not fit in the file
    inst += [(40, [(1, None, None)]), (50, [(2, None, None), (1, None, None)])]
    # typed sections: concrete placement, symbolic content
    bodies = {1: [0, 5], 2: [0, 3, 4, 9], 3: [0, 17, 18, 19, 36], 8: [0, 10, 11, 12, 14, 24], 9: [0, 7, 8, 17]}
    if tier == 'thorough':
        bodies = {1: [0, 1, 5, 16], 2: [0, 1, 3, 4, 5, 8, 9, 13], 3: [0, 1, 17, 18, 19, 36, 37, 54], 8: [0, 10, 11, 12, 13, 14, 22, 24, 26, 36], 9: [0, 1, 7, 8, 9, 16, 17, 24]}
    for t, bs in bodies.items():
        for b in bs:
            inst.append((44 + b, [(t, 44, b)]))
            if b >= 4:
                inst.append((44 + b, [(t, 44, b - 1)]))        # section shorter than the file tail
                inst.append((44 + b, [(t, 45, b - 1)]))        # unaligned start
    pairs = [(2, 1), (1, 3), (2, 2), (3, 3), (8, 2), (9, 8), (1, 1)] if tier == 'quick' else [(a, b) for a in (1, 2, 3, 8, 9) for b in (1, 2, 3, 8, 9)]
    def cap(t, n, other):   # string pools with >= 3 symbolic-length entries exhaust memory (measured): keep them <= 9 bytes, <= 5 when both are pools
        return min(n, 5 if other == 2 else (9 if tier == 'quick' else 13)) if t == 2 else n
    for (a, b) in pairs:
        for (b0, b1) in ([(9, 11)] if tier == 'quick' else [(9, 11), (18, 8), (4, 22)]):
            b0, b1 = cap(a, b0, b), cap(b, b1, a)
            inst.append((56 + b0 + b1, [(a, 56, b0), (b, 56 + b0, b1)]))
        ov = 8 if (2 in (a, b) or (a, b) == (8, 8)) else 12
        if (a, b) == (2, 2): ov = 5
        inst.append((56 + ov, [(a, 56, ov), (b, 56, ov)]))       # overlapping sections
    seen = set(); inst = [x for x in inst if not (repr(x) in seen or seen.add(repr(x)))]
    if tier == 'thorough':
        for tr in [(2, 1, 3), (2, 1, 8)]:   # a third section that is an 18-byte string pool gives no verdict (cbmc rc 6, measured)
            inst.append((68 + 27, [(tr[0], 68, 9), (tr[1], 77, 0), (tr[2], 77, 18)]))
    else:
        inst.append((68 + 27, [(2, 68, 9), (1, 77, 0), (3, 77, 18)]))
    return inst

def loader_job(size, secs, tier, prefix, free_header=False):
    d = {'SIZE': size, 'NSEC': len(secs), 'MAXITEMS': size // 4 + 2, 'CRC_ABSTRACT': None, 'CRC_LOG_BYTES': 1}
    parts = []
    for i, (t, off, sz) in enumerate(secs):
        d['SECT%d' % i] = t
        if off is not None:
            d['SOFF%d' % i] = off; d['SSZ%d' % i] = sz
        parts.append('%s%s' % (SECNAMES.get(t, str(t)), '@sym' if off is None else '@%d+%d' % (off, sz)))
    if free_header: d['FREE_HEADER'] = None
    nm = '%s_loader_sz%d_%s%s' % (prefix, size, '_'.join(parts) or 'nosec', '_freehdr' if free_header else '')
    def tot(t, per): return max([sz // per for (ty, off, sz) in secs if ty == t and sz is not None] + [0])
    nstr = sum(sz // 4 for (ty, off, sz) in secs if ty == 2 and sz is not None)
    maxbody = max([sz for (ty, off, sz) in secs if sz is not None] + [0])
    ubf = {'nvm_deserialize': [len(secs) + 2, tot(2, 4) + 2, tot(3, 18) + 2, tot(9, 8) + 2, tot(8, 11) + 2],
           'nvm_add_string': [nstr + 2]}
    return Job(name=nm, harness='nvm_loader.c', sources=['src/nanoisa/nvm_format.c'], defines=d, unwind=size + 3,
               src_remove_bodies=['nvm_crc32'], unwind_by_func=ubf, unwindset=['memcmp.0:%d' % (maxbody + 2)],
               flags=(['--max-field-sensitivity-array-size', '128'] if size > 64 else []),
               timeout=1200, group='nvm_loader',
               desc={'file_size': size, 'sections': parts,
                     'symbolic': 'flags, entry, pool offset/length, stored checksum, every body byte; directory offset/size where marked @sym',
                     'crc': 'uninterpreted (any value): includes well-checksummed hostile files'})
