#!/usr/bin/env python3
"""C05 (driver gating): a program the front end rejects is never turned into an artifact nor executed."""
import os, sys, time
sys.path.insert(0, os.path.join(os.path.dirname(os.path.abspath(__file__)), '..', 'lib'))
from vlib import *
import drvjobs

META = {
    'functions_encoded': ['typechecker.c: check_statement (block, unsafe block, call, return, assert, if), check_expression (literals, call)', 'main.c: compile_file (nanoc driver, phases 1-6 gating)', 'nanovirt/main.c: main (nano_virt driver: --run, --emit-nvm, native wrapper, -o x.nvm --run)'],
    'bounds': {'phase outcomes': 'every combination of success/failure of lexer, parser, import processing, type check, shadow tests, transpiler/code generator, serializer, fopen, cc/system, VM run',
               'command lines': 'nano_virt: --run | --emit-nvm -o out.nvm | -o out.bin | -o out.nvm --run ; nanoc: in.nano -o out.bin with symbolic -S/--keep-c/--verbose'},
    'outside': ['the type checker\'s decisions beyond three rule kernels (external call outside unsafe, return of the wrong type, non-bool condition; literals only): operand/argument types, arity, unknown names, immutability, missing return (the parser\'s implicit-return injection: seed C05/b), undefined fields/variants, resource use are NOT decided',
                'the back half of nanoc\'s driver after transpile_to_c (cc command line, temp files): paths end at the transpile stub', 'loops after transpilation are cut at 8 iterations without unwinding assertion in the nanoc job (irrelevant to the rejection paths, which contain no loop)'],
    'assumptions': ['every function without a body in the harness binary returns an arbitrary value (goto-instrument --generate-function-body nondet-return); pointer safety of the drivers is not the subject (standard checks off)'],
    'stubs': ['tokenize, parse_program, process_imports, type_check, run_shadow_tests, transpile_to_c, codegen_compile, nvm_serialize, wrapper_generate*, vm_init/vm_execute, system, fopen/fwrite/fclose, create_environment, create_module_list (ghost flags: phase ran)'],
    'explanation': 'The real driver code runs with symbolic phase outcomes. Asserted: no phase runs after an earlier one failed; a failed lexer/parser/import/type-check (and for nanoc: shadow-test) phase gives a non-zero status with no code generation, no file opened for writing, no cc/system call, no VM execution; an accepted program reaches code generation.',
}

RULES = ([{'RULE': 1, 'UK': uk} for uk in (0, 1, 2, 3)] + [{'RULE': 1, 'UK': uk, 'NOTRAIL': 1} for uk in (1, 2, 3)]
         + [{'RULE': 2, 'LK': lk} for lk in ('AST_NUMBER', 'AST_BOOL', 'AST_FLOAT', 'AST_STRING')]
         + [{'RULE': 3, 'LK': lk, 'COND_IN': ci} for lk in ('AST_NUMBER', 'AST_BOOL', 'AST_FLOAT', 'AST_STRING') for ci in (0, 1)])
UTXT = {0: '', 1: '    unsafe {\n        (getpid)\n    }\n', 2: '    unsafe {\n        return 0\n    }\n', 3: '    unsafe {\n        unsafe {\n        }\n        (getpid)\n    }\n'}

def rule_jobs(prefix):
    out = []
    for d in RULES:
        nm = '%s_rule_%s' % (prefix, '_'.join('%s%s' % (k.lower(), str(v).replace('AST_', '').lower()) for k, v in d.items()))
        j = Job(name=nm, harness='tc_rules.c', sources=[], src_defines=dict(d, union='struct'), unwind=4, unwindset=['strcmp.0:24'], gen_bodies='keep-libc',
                flags=['--slice-formula'], overflow=False, timeout=600, replay='custom' if d['RULE'] == 1 else 'none', must_witness=['checked'], group='typechecker_rule_kernels',
                desc={'rule': {1: 'external call outside an unsafe context', 2: 'return of the wrong type', 3: 'non-bool condition'}[d['RULE']], 'shape': d,
                      'symbolic': {1: 'callee extern or not, module unsafe or not, warning switches', 2: 'declared return type over int/bool/float/string/void', 3: '(none beyond the literal kind; declared return type)'}[d['RULE']],
                      'modelling': 'typechecker.c compiled with -Dunion=struct; AST statically initialised; env_get_function knows one function `ext`'})
        j.rule = d
        out.append(j)
    return out


def rule_replay(job, failed, inputs, outdir):
    """RULE 1 on the real nanoc: the same body as source text with libc's getpid as the external function."""
    sys.path.insert(0, os.path.join(VERIF, 'gen'))
    import e2
    d = job.rule
    ext, modunsafe = inputs.get('in_extern', 1) & 1, inputs.get('in_modunsafe', 0) & 1
    if modunsafe:
        return False, 'unsafe-module variant is not replayed'
    decl = 'extern fn getpid() -> int\n\n' if ext else 'fn getpid() -> int {\n    return 1\n}\nshadow getpid { assert true }\n\n'
    body = UTXT[d['UK']] + ('' if d.get('NOTRAIL') else '    (getpid)\n')
    src = decl + 'fn f() -> int {\n' + body + '    return 0\n}\nshadow f { assert true }\n\nfn main() -> int {\n    return 0\n}\nshadow main { assert true }\n'
    tools = e2.build_tools()
    p = os.path.join(outdir, 'replay.nano'); open(p, 'w').write(src)
    out = os.path.join(outdir, 'replay_bin')
    rc, so, se = sh([os.path.join(tools, 'bin', 'nanoc_c'), p, '-o', out], timeout=300, cwd=tools, env=dict(os.environ, TMPDIR=outdir))
    rv, sov, sev = sh([os.path.join(tools, 'bin', 'nano_virt'), p, '--emit-nvm', '-o', os.path.join(outdir, 'replay.nvm')], timeout=120, cwd=tools, env=dict(os.environ, TMPDIR=outdir))
    must_reject = bool(ext) and not d.get('NOTRAIL')
    open(os.path.join(outdir, 'output.txt'), 'w').write(src + '\n--- nanoc exit=%s ; nano_virt --emit-nvm exit=%s ; expected: %s\n%s\n' % (rc, rv, 'rejected' if must_reject else 'accepted', (so + se)[-1200:]))
    open(os.path.join(outdir, 'cmd.txt'), 'w').write('nanoc_c replay.nano -o replay_bin ; nano_virt replay.nano --emit-nvm -o replay.nvm\n')
    if must_reject and (rc == 0 or rv == 0):
        return True, 'reproduced on the real compilers: external call outside unsafe accepted (nanoc exit=%s, nano_virt exit=%s)' % (rc, rv)
    if not must_reject and rc != 0 and 'unsafe' in (so + se):
        return True, 'reproduced on the real nanoc: a call that needs no unsafe context is rejected (exit=%s)' % rc
    return False, 'did not reproduce on the real compilers (nanoc exit=%s, nano_virt exit=%s)' % (rc, rv)


def main(pid='C05'):
    tier = tier_arg(); t0 = time.time()
    jobs = drvjobs.gate_jobs(pid.lower(), tier)
    if pid == 'C05':
        jobs += rule_jobs('c05')
    run_jobs(jobs)
    sys.exit(finish(pid, tier, 'model_checking', jobs, META, t0, custom_replay=rule_replay))

if __name__ == '__main__':
    main()
