#!/usr/bin/env python3
"""C05 (driver gating): a program the front end rejects is never turned into an artifact nor executed."""
import os, sys, time
sys.path.insert(0, os.path.join(os.path.dirname(os.path.abspath(__file__)), '..', 'lib'))
from vlib import *
import drvjobs

META = {
    'functions_encoded': ['main.c: compile_file (nanoc driver, phases 1-6 gating)', 'nanovirt/main.c: main (nano_virt driver: --run, --emit-nvm, native wrapper, -o x.nvm --run)'],
    'bounds': {'phase outcomes': 'every combination of success/failure of lexer, parser, import processing, type check, shadow tests, transpiler/code generator, serializer, fopen, cc/system, VM run',
               'command lines': 'nano_virt: --run | --emit-nvm -o out.nvm | -o out.bin | -o out.nvm --run ; nanoc: in.nano -o out.bin with symbolic -S/--keep-c/--verbose'},
    'outside': ['the type checker\'s own decisions (which programs it rejects): rule kernels on typechecker.c were planned (DESIGN.md section 4/C05) but not built - the seeded changes C05/a (unsafe-block flag not restored) and C05/b (implicit return injection) live there and are NOT detected',
                'the back half of nanoc\'s driver after transpile_to_c (cc command line, temp files): paths end at the transpile stub', 'loops after transpilation are cut at 8 iterations without unwinding assertion in the nanoc job (irrelevant to the rejection paths, which contain no loop)'],
    'assumptions': ['every function without a body in the harness binary returns an arbitrary value (goto-instrument --generate-function-body nondet-return); pointer safety of the drivers is not the subject (standard checks off)'],
    'stubs': ['tokenize, parse_program, process_imports, type_check, run_shadow_tests, transpile_to_c, codegen_compile, nvm_serialize, wrapper_generate*, vm_init/vm_execute, system, fopen/fwrite/fclose, create_environment, create_module_list (ghost flags: phase ran)'],
    'explanation': 'The real driver code runs with symbolic phase outcomes. Asserted: no phase runs after an earlier one failed; a failed lexer/parser/import/type-check (and for nanoc: shadow-test) phase gives a non-zero status with no code generation, no file opened for writing, no cc/system call, no VM execution; an accepted program reaches code generation.',
}

def main(pid='C05'):
    tier = tier_arg(); t0 = time.time()
    jobs = drvjobs.gate_jobs(pid.lower(), tier)
    run_jobs(jobs)
    sys.exit(finish(pid, tier, 'model_checking', jobs, META, t0))

if __name__ == '__main__':
    main()
