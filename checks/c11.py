#!/usr/bin/env python3
"""C11: instruction encoding round trip (isa.c) — one CBMC query per opcode byte x direction."""
import os, re, sys, time
sys.path.insert(0, os.path.join(os.path.dirname(os.path.abspath(__file__)), '..', 'lib'))
from vlib import *

def opcode_bytes():
    """Which bytes are opcodes: NanoOpcode enum in isa.h (the definition), read from the current tree."""
    txt = open(os.path.join(REPO, 'src/nanoisa/isa.h')).read()
    m = re.search(r'typedef enum \{(.*?)\}\s*NanoOpcode;', txt, re.S)
    ops = {}
    for name, val in re.findall(r'\b(OP_[A-Z0-9_]+)\s*=\s*(0x[0-9A-Fa-f]+|\d+)', m.group(1)):
        if name == 'OP_COUNT':
            continue
        ops[int(val, 0)] = name
    return ops

def main():
    tier = tier_arg(); t0 = time.time()
    ops = opcode_bytes()
    jobs = []
    for b in range(256):
        for d in (0, 1):
            jobs.append(Job(name='c11_codec_op%02x_%s' % (b, 'encdec' if d == 0 else 'decenc'), harness='c11_codec.c',
                            sources=['src/nanoisa/isa.c'], defines={'OPC': b, 'IS_OPCODE': 1 if b in ops else 0, 'DIRECTION': d},
                            unwind=41, unwindset=['isa_encode.0:5','isa_encode.1:5','isa_decode.0:5'],
                            must_witness=(['done'] if b in ops else ['refused']), timeout=900, group='codec',
                            desc={'opcode_byte': '0x%02x' % b, 'mnemonic': ops.get(b, '(undefined)'),
                                  'direction': 'decode(encode(i))=i' if d == 0 else 'encode(decode(b))=b',
                                  'symbolic': 'all operand payload bits (4x64), buffer length 0..32, all buffer bytes, truncation length'}))
    import c11_text
    jobs += c11_text.jobs(tier)
    run_jobs(jobs)
    meta = {
        'functions_encoded': ['isa.c: isa_encode, isa_decode, isa_get_info, isa_operand_size, read_*/write_* helpers'] + c11_text.FUNCS,
        'bounds': {'opcode bytes': 'all 256, one query per byte and direction', 'buffer length': '0..32 symbolic (ISA_MAX_INSTRUCTION_SIZE)',
                   'operands': 'all 2^256 payload patterns incl. NaN/inf/-0.0', 'unwind': 41, **c11_text.BOUNDS},
        'outside': c11_text.OUTSIDE,
        'assumptions': ['the set of defined opcode bytes is NanoOpcode in isa.h (parsed at run time: %d opcodes)' % len(ops),
                        'operand sizes per isa.h comments (u8=1,u16=2,u32/i32=4,i64/f64=8)'] + c11_text.ASSUME,
        'stubs': c11_text.STUBS,
        'explanation': 'Per opcode byte: encode->decode and decode->encode round trips, truncation refusal, undefined-byte refusal, '
                       'no write outside the instruction, for all operand/buffer values (CBMC, SAT).',
    }
    sys.exit(finish('C11', tier, 'model_checking', jobs, meta, t0))

if __name__ == '__main__':
    main()
