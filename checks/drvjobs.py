"""Driver/session harness jobs: daemon session + accept loop (C18, C13 verified-before-executed, C17 framing)."""
import os, sys
sys.path.insert(0, os.path.join(os.path.dirname(os.path.abspath(__file__)), '..', 'lib'))
from vlib import *

def vmd_job(prefix, mode, npolls=3, tier='quick'):
    d = {'MODE': mode, 'NPOLLS': npolls}
    return Job(name='%s_vmd_%s' % (prefix, 'session' if mode == 0 else 'acceptloop_%dpolls' % npolls), harness='vmd_session.c', sources=[], defines=d,
               unwind=18, unwindset=['strlen.0:48', 'strncpy.0:112', 'read_all.0:10', 'write_all.0:10'], flags=['--slice-formula', '--memory-leak-check'], timeout=1500, mem_gb=14, replay='none',
               must_witness=['done'], group='daemon_session' if mode == 0 else 'daemon_accept_loop',
               desc={'subject': 'client_thread (one whole session)' if mode == 0 else 'vmd_server_run accept loop, %d poll rounds' % npolls,
                     'symbolic': 'every byte the client sends, every read/write outcome (EOF, error, EPIPE, short counts), loader/verifier/VM outcomes, program output chunks'
                                 if mode == 0 else 'every poll/accept/pthread_create outcome (EINTR, EMFILE, ECONNABORTED, ENOMEM, success)'})

def c18_jobs(tier):
    return [vmd_job('c18', 0, tier=tier), vmd_job('c18', 1, 2 if tier == 'quick' else 3, tier=tier)]

def c13_jobs(tier):
    return []


def gate_job(prefix, tool, args=0, tier='quick'):
    nm = '%s_gate_%s%s' % (prefix, {1: 'nano_virt', 2: 'nanoc', 3: 'nano_vm'}[tool], ('_args%d' % args) if tool == 1 else '')
    return Job(name=nm, harness='drv_gate.c', sources=[], defines={'TOOL': tool, 'ARGS': args}, unwind=8, gen_bodies=True, unwinding_assertions=(tool == 1),
               flags=['--slice-formula', '--no-standard-checks'], timeout=600, replay='none', must_witness=['rejected', 'accepted'], group='driver_gating', pointer_overflow=False,
               desc={'tool': {1: 'nano_virt main', 2: 'nanoc compile_file', 3: 'nano_vm run_standalone'}[tool], 'argv': {0: '--run', 1: '--emit-nvm -o out.nvm', 2: '-o out.bin (native wrapper)', 3: '-o out.nvm --run'}.get(args) if tool == 1 else 'in.nano -o out.bin',
                     'symbolic': 'outcome of every phase (lexer, parser, imports, type check, shadow tests, transpile/codegen, serialize, cc/system, fopen, VM run), option flags'})

def gate_jobs(prefix, tier):
    return [gate_job(prefix, 1, a, tier) for a in (0, 1, 2, 3)] + [gate_job(prefix, 2, 0, tier)]




def exit_status_jobs(prefix, tier):
    return [gate_job(prefix, 3, 0, tier), gate_job(prefix, 1, 0, tier), gate_job(prefix, 1, 3, tier)]
