"""Driver/session harness jobs: daemon session + accept loop (C18, C13 verified-before-executed, C17 framing)."""
import os, sys
sys.path.insert(0, os.path.join(os.path.dirname(os.path.abspath(__file__)), '..', 'lib'))
from vlib import *

def vmd_job(prefix, mode, npolls=3, tier='quick'):
    d = {'MODE': mode, 'NPOLLS': npolls}
    return Job(name='%s_vmd_%s' % (prefix, 'session' if mode == 0 else 'acceptloop_%dpolls' % npolls), harness='vmd_session.c', sources=[], defines=d,
               unwind=18, unwindset=['strlen.0:48', 'strncpy.0:112', 'read_all.0:10', 'write_all.0:10'], flags=['--slice-formula', '--memory-leak-check'], timeout=900 if tier == 'thorough' else 420, mem_gb=14, replay='none',
               must_witness=['done'], group='daemon_session' if mode == 0 else 'daemon_accept_loop',
               desc={'subject': 'client_thread (one whole session)' if mode == 0 else 'vmd_server_run accept loop, %d poll rounds' % npolls,
                     'symbolic': 'every byte the client sends, every read/write outcome (EOF, error, EPIPE, short counts), loader/verifier/VM outcomes, program output chunks'
                                 if mode == 0 else 'every poll/accept/pthread_create outcome (EINTR, EMFILE, ECONNABORTED, ENOMEM, success)'})

def c18_jobs(tier):
    return [vmd_job('c18', 0, tier=tier), vmd_job('c18', 1, 2 if tier == 'quick' else 3, tier=tier)]

def c13_jobs(tier):
    return []
