import drvjobs
FUNCS = ['nanovm/main.c: run_standalone (nano_vm)', 'nanovirt/main.c: main tail (--run): exit status derivation']
OUTSIDE = ['the generated wrapper executable\'s main (text produced by wrapper_gen.c) - not encoded; seeded change C10/b lives there',
           'stdout equality of the three runners (concrete execution)']
def jobs(tier):
    return drvjobs.exit_status_jobs('c10', tier)
