import drvjobs
FUNCS = ['wrapper_gen.c: write_wrapper_c (run natively) -> the generated wrapper main() (run symbolically)', 'nanovm/main.c: run_standalone (nano_vm)', 'nanovirt/main.c: main tail (--run): exit status derivation']
OUTSIDE = ['the wrapper is checked on the main() text that write_wrapper_c emits for an import-free module; FFI module loading in wrappers is outside',
           'stdout equality of the three runners (concrete execution)']
def jobs(tier):
    return drvjobs.exit_status_jobs('c10', tier) + [drvjobs.wrapper_job('c10', tier)]
