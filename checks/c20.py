#!/usr/bin/env python3
"""C20: native runtime memory safety and sequence behaviour (runtime/dyn_array.c kernels; generated programs via the E2 family when built)."""
import os, sys, time
sys.path.insert(0, os.path.join(os.path.dirname(os.path.abspath(__file__)), '..', 'lib'))
from vlib import *
import dynjobs
try:
    import e2jobs
except Exception:
    e2jobs = None
try:
    import listjobs
except Exception:
    listjobs = None

def main():
    tier = tier_arg(); t0 = time.time()
    jobs = dynjobs.c20_dyn_jobs('c20', tier)
    if listjobs: jobs += listjobs.jobs('c20', tier)
    progs = e2jobs.c20_jobs(tier) if e2jobs else []
    jobs += progs
    run_jobs(jobs)
    meta = {
        'functions_encoded': ['runtime/dyn_array.c: dyn_array_push_*/pop_*/get_*/set_*/remove_at/clear/reserve/clone/grow, *_struct variants (every element kind)']
                             + (listjobs.FUNCS if listjobs else []) + (e2jobs.C20_FUNCS if e2jobs else []),
        'bounds': {'dyn_array': 'one operation from ANY valid array: capacity %s, length 0..capacity symbolic (incl. the full array that must grow), all contents, index any int64, value any' % ('4' if tier == 'quick' else '1, 4, 8'),
                   'struct elements': '12-byte structs, capacity 3',
                   'generated runtime text': 'string-builder helpers emitted into every generated C file: one append from any valid builder (capacity 8; thorough 1, 8, 16), appended text 0..10 symbolic bytes'},
        'outside': ['runtime/gc.c: its 16384-bucket pointer hash set (multiplicative hashing of symbolic addresses) gave no verdict in 300 s even with 2 objects and 2 steps (attempts/gc_hist.c) - not claimed',
                    'nl_string.c formatting functions (printf family has no solver semantics)', 'allocation failure paths (dyn_array_grow keeps going after a failed realloc)',
                    'operation histories longer than one step are covered inductively: every operation preserves the representation invariant 0<=length<=capacity, data holds capacity elements'],
        'assumptions': ['allocation does not fail', 'assert() aborts the process', 'gc_alloc modelled as calloc (clone only)', 'memmove/memcpy as exact byte loops (CBMC built-in models were imprecise for symbolic sizes)'],
        'stubs': ['assert.h', 'gc_alloc/gc_release (dyn_array harness)', 'fprintf', 'memmove/memcpy byte loops'],
        'explanation': 'Inductive step for the sequence abstraction: from an arbitrary valid DynArray, each operation is memory-safe (CBMC bounds/pointer/overflow checks incl. signed overflow in size arithmetic), preserves the invariant, and produces exactly the abstract list result (push appends, pop returns last, remove shifts, set updates one, clone copies).',
    }
    sys.exit(finish('C20', tier, 'model_checking', jobs, meta, t0))

if __name__ == '__main__':
    main()
