#!/usr/bin/env python3
"""C16: a failing / hostile co-process is contained by the VM."""
import os, sys, time
sys.path.insert(0, os.path.join(os.path.dirname(os.path.abspath(__file__)), '..', 'lib'))
from vlib import *
import copjobs

def main():
    tier = tier_arg(); t0 = time.time()
    jobs = copjobs.c16_dec_jobs('c16', tier) + [copjobs.fault_job('c16', 1, tier)]
    if tier == 'thorough':
        jobs.append(copjobs.fault_job('c16', 2, tier))
    run_jobs(jobs)
    meta = {
        'functions_encoded': ['vm_ffi.c: vm_ffi_call_cop, cop_ensure, cop_is_alive, vm_ffi_cop_start, vm_ffi_cop_stop', 'cop_protocol.c: cop_send, cop_send_simple, cop_recv_header, cop_recv_payload, read_all, write_all, cop_serialize_value; cop_deserialize_value(_at) on arbitrary bytes'],
        'bounds': {'fault schedule': 'EVERY combination of read/write/waitpid/fork/pipe outcomes (error, EOF, EPIPE, one EINTR, up to two short transfers, arbitrary reply bytes incl. wrong version/type/oversized length) over 1 external call (thorough: 2) followed by the shutdown path',
                   'decoder': 'arbitrary reply values up to 17 bytes: concrete leading tags / element tags / counts (incl. 0xFFFFFFFF, 0x80000000), symbolic lengths and payload'},
        'outside': ['real signal delivery and the real process table (modelled by ghost state: SIGPIPE disposition, child alive/exited/signalled/reaped, open descriptors)',
                    'more than 2 consecutive calls; the in-process fallback vm_ffi_call (arbitrary result)', 'program output buffering (stdout intact) is not modelled'],
        'assumptions': ['POSIX contracts of read/write/waitpid/fork/pipe/close/kill as written in harness/cop_fault.c', 'a child that was sent SIGTERM terminates', 'allocation does not fail'],
        'stubs': ['read, write, close, pipe, fork, waitpid, kill, usleep, signal, dup2, exec*, _exit, nvm_serialize (4-byte blob), vm_ffi_call (arbitrary), cop_deserialize_value (arbitrary, in the fault job only)'],
        'explanation': 'Memory safety of the whole VM-side protocol under every peer behaviour (a reply longer than the buffer it is read into is caught by the read stub asserting writability), no fatal SIGPIPE (disposition ghost), no double close, no I/O on closed descriptors, no endless blocking wait, no un-reaped child after shutdown, every descriptor closed.',
    }
    sys.exit(finish('C16', tier, 'fault_enumeration', jobs, meta, t0))

if __name__ == '__main__':
    main()
