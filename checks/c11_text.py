FUNCS=[]; BOUNDS={}; OUTSIDE=['assembler/disassembler text round trip (see DESIGN: pending)']; ASSUME=[]; STUBS=[]
def jobs(tier): return []
