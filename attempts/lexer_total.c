/* C09 (lexer): tokenize() on EVERY NUL-terminated input of at most LEN bytes: memory-safe, terminates within the
 * unwinding bound, returns NULL or an array that ends in TOKEN_EOF with 1 <= count <= LEN + 1; free_tokens is safe. */
#include "verif.h"
#include <stdlib.h>
#include <stdio.h>
#include "nanolang.h"
int verif_abort_flag;
#ifndef REPLAY
int fprintf(FILE *f, const char *fmt, ...) { (void)f; (void)fmt; return 0; }
#endif
#ifndef LEN
#define LEN 3
#endif
void harness(void) {
    ND_ARR(uint8_t, in_src, LEN + 1);
    char src[LEN + 1];
    for (int i = 0; i < LEN; i++) src[i] = (char)in_src[i];
    src[LEN] = 0;
#ifdef FIRST
    src[0] = FIRST;
#endif
    int count = -1;
    Token *t = tokenize(src, &count);
    if (!t) { WITNESS("lexer rejected"); return; }
    CHECK(count >= 1 && count <= LEN + 1, "token count is between 1 and length+1");
    CHECK(t[count - 1].token_type == TOKEN_EOF, "token array ends with EOF");
    free_tokens(t, count);
    WITNESS("lexer accepted");
}
