import sys, os, time
sys.path.insert(0,'/verif/lib'); from vlib import *
first, ln = sys.argv[1], int(sys.argv[2])
j = Job(name='lex_%s_%d' % (first, ln), harness='lexer_scan.c', sources=['src/lexer.c'], defines={'LEN': ln, 'FIRST': first},
        src_defines={'static': ''}, src_remove_bodies=['create_token', 'keyword_or_identifier'],
        unwind=ln + 4, timeout=int(os.environ.get('TO','150')), replay='none', group='lexer', must_witness=[], flags=sys.argv[3:],
        desc={})
run_jobs([j])
