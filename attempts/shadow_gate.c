/* C06: eval.c's run_shadow_tests and AST_ASSERT handling on harness-built ASTs.  The program has NSHADOW
 * shadow blocks (a non-shadow item between them); each body is a block of NASSERT assert statements whose
 * conditions are boolean literals with SYMBOLIC values (NEST=1 wraps the last assert of each body in
 * `if true { ... }`).  The real evaluator runs the bodies.  Oracle: the result is true iff every condition
 * is true - whatever the position, count and nesting of the false ones; evaluation continues after a failure. */
#include "verif.h"
#include <stdlib.h>
#include <stdio.h>
int verif_abort_flag;
int nondet_int(void);
#ifndef REPLAY
int fprintf(FILE *f, const char *fmt, ...) { (void)f; (void)fmt; return 0; }
int printf(const char *fmt, ...) { (void)fmt; return 0; }
int fflush(FILE *f) { (void)f; return 0; }
int dup(int fd) { (void)fd; return 9; }
int dup2(int a, int b) { (void)a; return b; }
int open(const char *p, int fl, ...) { (void)p; (void)fl; return 8; }
int close(int fd) { (void)fd; return 0; }
char *getenv(const char *n) { (void)n; return NULL; }
void exit(int c) { (void)c; __CPROVER_assume(0); }
#endif
#include "eval.c"
#ifndef REPLAY
/* environment lookups (env.c) for an environment without functions; scalar constructors transcribed */
Function *env_get_function(Environment *e, const char *n) { (void)e; (void)n; return NULL; }
Value create_void(void) { Value r; memset(&r, 0, sizeof r); r.type = VAL_VOID; return r; }
Value create_bool(bool b) { Value r; memset(&r, 0, sizeof r); r.type = VAL_BOOL; r.as.bool_val = b; return r; }
Value create_int(long long v) { Value r; memset(&r, 0, sizeof r); r.type = VAL_INT; r.as.int_val = v; return r; }
#endif
#ifndef NSHADOW
#define NSHADOW 2
#endif
#ifndef NASSERT
#define NASSERT 2
#endif
#ifndef NEST
#define NEST 0
#endif
static ASTNode conds[NSHADOW][NASSERT], asserts[NSHADOW][NASSERT], blocks[NSHADOW], shadows[NSHADOW], filler, prog, truelit[NSHADOW], ifs[NSHADOW], inner[NSHADOW];
static ASTNode *stmts[NSHADOW][NASSERT], *innerstmts[NSHADOW][1], *items[2 * NSHADOW + 1];
static char fname[4] = "f";
static Environment env;

void harness(void) {
    ND_ARR(uint8_t, in_c, NSHADOW * NASSERT);
    int all = 1, n = 0;
    for (int s = 0; s < NSHADOW; s++) {
        for (int k = 0; k < NASSERT; k++) {
            conds[s][k].type = AST_BOOL; conds[s][k].as.bool_val = (in_c[s * NASSERT + k] & 1);
            if (!(in_c[s * NASSERT + k] & 1)) all = 0;
            asserts[s][k].type = AST_ASSERT; asserts[s][k].line = 10 * s + k + 1; asserts[s][k].as.assert.condition = &conds[s][k];
            stmts[s][k] = &asserts[s][k];
        }
#if NEST
        truelit[s].type = AST_BOOL; truelit[s].as.bool_val = true;
        innerstmts[s][0] = &asserts[s][NASSERT - 1];
        inner[s].type = AST_BLOCK; inner[s].as.block.statements = innerstmts[s]; inner[s].as.block.count = 1;
        ifs[s].type = AST_IF; ifs[s].as.if_stmt.condition = &truelit[s]; ifs[s].as.if_stmt.then_branch = &inner[s]; ifs[s].as.if_stmt.else_branch = NULL;
        stmts[s][NASSERT - 1] = &ifs[s];
#endif
        blocks[s].type = AST_BLOCK; blocks[s].as.block.statements = stmts[s]; blocks[s].as.block.count = NASSERT;
        shadows[s].type = AST_SHADOW; shadows[s].as.shadow.function_name = fname; shadows[s].as.shadow.body = &blocks[s];
        items[n++] = &shadows[s];
        if (s + 1 < NSHADOW) { filler.type = AST_STRUCT_DEF; items[n++] = &filler; }
    }
    prog.type = AST_PROGRAM; prog.as.program.items = items; prog.as.program.count = n;
    bool verbose = nondet_int() & 1;
    bool r = run_shadow_tests(&prog, &env, verbose);
    CHECK(r == (all != 0), "run_shadow_tests succeeds iff every executed assertion held (any position, count, nesting)");
    CHECK(!g_in_shadow_tests, "shadow mode is left afterwards");
    if (r) WITNESS("all passed"); else WITNESS("some failed");
}
