#!/usr/bin/env python3
"""C17 (sequential wire transparency only): what the program prints reaches the client completely and in order."""
import os, sys, time
sys.path.insert(0, os.path.join(os.path.dirname(os.path.abspath(__file__)), '..', 'lib'))
from vlib import *
import drvjobs

def main():
    tier = tier_arg(); t0 = time.time()
    jobs = [drvjobs.vmd_job('c17', 0, tier=tier)]
    for nout in ((0, 2) if tier == 'quick' else (0, 1, 2, 3)):
        for err in (0, 1):
            d = {'NOUT': nout}
            if err: d['WITH_ERROR'] = None
            jobs.append(Job(name='c17_client_rx_out%d%s' % (nout, '_err' if err else ''), harness='vmd_client_rx.c', sources=[], defines=d, unwind=nout * 10 + 30,
                            gen_bodies=True, flags=['--slice-formula'], timeout=900, replay='none', must_witness=['session received'], group='daemon_client_reassembly',
                            desc={'output_frames': nout, 'error_frame': bool(err), 'symbolic': 'payload bytes, exit code, size of every read chunk, one EINTR'}))
    run_jobs(jobs)
    meta = {
        'functions_encoded': ['vmd_client.c: vmd_execute', 'vmd_protocol.c: recv/send helpers, read_all, write_all', 'vmd_server.c: client_thread session path (as in C18) incl. flushing of the socket-backed stream before the exit frame'],
        'bounds': {'client': '<= 2 output frames (thorough 3) of 2 bytes, optional error frame, every chunking of the byte stream', 'server': 'one session, <= 2 output chunks + an unterminated last line held in the stdio buffer'},
        'outside': ['EVERYTHING concurrent: interleavings of sessions, data races, cross-session leakage through process-wide state (e.g. the seeded static scratch buffer C17/a) - CBMC cannot carry two interpreter sessions; this part of C17 is not decided by this technique',
                    'equality with the standalone run of the same module (the VM is a stub here; the standalone driver\'s status derivation is decided under C10)'],
        'assumptions': ['POSIX read/write contracts as in the harness', 'line-buffered stdio modelled as: at most one pending partial line, drained by fflush/fclose'],
        'stubs': ['read (scripted stream, arbitrary chunks), write, fwrite (recording), fprintf; server side as C18'],
        'explanation': 'Server: every byte the program prints (including an unterminated last line) is framed and sent before the exit-code frame. Client: the frames are reassembled to exactly the payload bytes in order and the exit code is returned, for every way the kernel chunks the stream.',
    }
    sys.exit(finish('C17', tier, 'model_checking', jobs, meta, t0))

if __name__ == '__main__':
    main()
