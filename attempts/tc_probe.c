/* probe: typechecker.c check_expression on (op <lit> <lit>) */
#include "verif.h"
#include <stdlib.h>
#include <stdio.h>
#ifndef REPLAY
int fprintf(FILE *f, const char *fmt, ...) { (void)f; (void)fmt; return 0; }
int snprintf(char *s, size_t n, const char *f, ...) { (void)f; if (n) s[0] = 0; return 0; }
#endif
#include "typechecker.c"
int verif_abort_flag;
static ASTNode na, nb, nop; static ASTNode *args2[2]; static Environment env;
void harness(void) {
    na.type = KA; nb.type = KB; na.line = 1; nb.line = 1; nop.line = 1;
    args2[0] = &na; args2[1] = &nb;
    nop.type = AST_PREFIX_OP; nop.as.prefix_op.op = OPK; nop.as.prefix_op.args = args2; nop.as.prefix_op.arg_count = 2;
    Type t = check_expression(&nop, &env);
    CHECK(EXPECT_OK ? (t != TYPE_UNKNOWN) : (t == TYPE_UNKNOWN), "operator typing rule");
    WITNESS("checked");
}
