/* C07 probe: parse_expression on two concrete-shape token streams (infix spelling / fully parenthesised prefix
 * spelling of the same expression), operators symbolic among the binary operators; the two ASTs must be equal. */
#include "verif.h"
#include <stdlib.h>
#include <stdio.h>
#ifndef REPLAY
int fprintf(FILE *f, const char *fmt, ...) { (void)f; (void)fmt; return 0; }
int vfprintf(FILE *f, const char *fmt, __builtin_va_list ap) { (void)f; (void)fmt; (void)ap; return 0; }
#endif
#include "parser.c"
int verif_abort_flag;
static char sa[2] = "a", sb[2] = "b", sc[2] = "c", s1[2] = "1", sop[3] = "op";
static int same_ast(const ASTNode *x, const ASTNode *y, int depth) {
    if (!x || !y) return x == y;
    if (x->type != y->type) return 0;
    if (depth <= 0) return 1;
    switch (x->type) {
    case AST_NUMBER: return x->as.number == y->as.number;
    case AST_IDENTIFIER: return strcmp(x->as.identifier, y->as.identifier) == 0;
    case AST_PREFIX_OP:
        if (x->as.prefix_op.op != y->as.prefix_op.op || x->as.prefix_op.arg_count != y->as.prefix_op.arg_count) return 0;
        for (int i = 0; i < 2; i++) if (i < x->as.prefix_op.arg_count && !same_ast(x->as.prefix_op.args[i], y->as.prefix_op.args[i], depth - 1)) return 0;
        return 1;
    default: return 1;
    }
}
static void tok(Token *t, int ty, const char *v) { t->token_type = ty; t->value = v; t->line = 1; t->column = 1; }
void harness(void) {
    ND(int, in_op1); ND(int, in_op2);
#ifdef FIXOP1
    in_op1 = FIXOP1;
#endif
#ifdef FIXOP2
    in_op2 = FIXOP2;
#endif
    ASSUME(in_op1 >= TOKEN_PLUS && in_op1 <= TOKEN_OR);
    ASSUME(in_op2 >= TOKEN_PLUS && in_op2 <= TOKEN_OR);
    /* infix:  a op1 b op2 c      prefix: (op2 (op1 a b) c) */
    static Token ti[8], tp[12];
    tok(&ti[0], TOKEN_IDENTIFIER, sa); tok(&ti[1], in_op1, sop); tok(&ti[2], TOKEN_IDENTIFIER, sb);
#if NOPS == 2
    tok(&ti[3], in_op2, sop); tok(&ti[4], TOKEN_IDENTIFIER, sc); tok(&ti[5], TOKEN_EOF, 0);
    const int ni = 6;
    tok(&tp[0], TOKEN_LPAREN, 0); tok(&tp[1], in_op2, sop); tok(&tp[2], TOKEN_LPAREN, 0); tok(&tp[3], in_op1, sop);
    tok(&tp[4], TOKEN_IDENTIFIER, sa); tok(&tp[5], TOKEN_IDENTIFIER, sb); tok(&tp[6], TOKEN_RPAREN, 0); tok(&tp[7], TOKEN_IDENTIFIER, sc);
    tok(&tp[8], TOKEN_RPAREN, 0); tok(&tp[9], TOKEN_EOF, 0);
    const int np = 10;
#else
    tok(&ti[3], TOKEN_EOF, 0);
    const int ni = 4;
    tok(&tp[0], TOKEN_LPAREN, 0); tok(&tp[1], in_op1, sop); tok(&tp[2], TOKEN_IDENTIFIER, sa); tok(&tp[3], TOKEN_IDENTIFIER, sb);
    tok(&tp[4], TOKEN_RPAREN, 0); tok(&tp[5], TOKEN_EOF, 0);
    const int np = 6;
#endif
    static Stage1Parser pi, pp;   /* static: zero-initialised without memset */
    pi.tokens = ti; pi.count = ni; pp.tokens = tp; pp.count = np;
    ASTNode *ai = parse_expression(&pi);
    ASTNode *ap = parse_expression(&pp);
    CHECK(ai != NULL && ap != NULL, "both spellings parse");
    CHECK(same_ast(ai, ap, 3), "infix and prefix spellings denote the same tree");
    WITNESS("parsed both");
}
