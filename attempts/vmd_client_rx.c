/* C17 (client side of the wire): vmd_execute reassembles the daemon's frames.  The server's byte stream is NOUT
 * OUTPUT frames (2 symbolic payload bytes each), optionally one ERROR frame, then the EXIT_CODE frame with a symbolic
 * code; the kernel delivers it CHUNK bytes per read (instances: 1, 3, 64).  Asserts: stdout
 * receives exactly the payload bytes in order, the returned status is the exit code. */
#include "verif.h"
#include <stdlib.h>
#include <stdio.h>
#include <errno.h>
#include <unistd.h>
int verif_abort_flag;
#ifndef NOUT
#define NOUT 2
#endif
#define STREAM_MAX (NOUT * 10 + 12 + 12)
static uint8_t stream[STREAM_MAX]; static size_t slen, spos;
static uint8_t outrec[NOUT * 2 + 4]; static size_t outn; static int out_overflow;
static int eintr_left = 1;
size_t nondet_size(void); int nondet_int(void);
#ifndef REPLAY
ssize_t read(int fd, void *buf, size_t n) {
    (void)fd;
    size_t avail = slen - spos;
    if (avail == 0) return 0;
    /* chunk size concrete per instance (CHUNK bytes per read): a symbolic chunking makes every header byte symbolic
     * for the solver (no verdict in 150 s even for a lone exit frame) */
    size_t r = CHUNK; if (r > n) r = n; if (r > avail) r = avail;
    for (size_t i = 0; i < STREAM_MAX; i++) if (i < r) ((uint8_t *)buf)[i] = stream[spos + i];
    spos += r; return (ssize_t)r;
}
ssize_t write(int fd, const void *buf, size_t n) { (void)fd; (void)buf; return (ssize_t)n; }
size_t fwrite(const void *p, size_t sz, size_t n, FILE *f) {
    (void)f; size_t tot = sz * n;
    for (size_t i = 0; i < 8; i++) if (i < tot) { if (outn < sizeof outrec) outrec[outn++] = ((const uint8_t *)p)[i]; else out_overflow = 1; }
    return n;
}
int fprintf(FILE *f, const char *fmt, ...) { (void)f; (void)fmt; return 0; }
#endif
#include "vmd_protocol.c"
#include "vmd_client.c"
static void put_hdr(uint8_t type, uint32_t len) { stream[slen++] = 1; stream[slen++] = type; stream[slen++] = 0; stream[slen++] = 0;
    stream[slen++] = len & 0xFF; stream[slen++] = (len >> 8) & 0xFF; stream[slen++] = (len >> 16) & 0xFF; stream[slen++] = (len >> 24) & 0xFF; }
void harness(void) {
    ND_ARR(uint8_t, in_pay, NOUT * 2 + 2); ND(int32_t, in_code); ND(uint8_t, in_with_err);
    for (int k = 0; k < NOUT; k++) { put_hdr(0x10, 2); stream[slen++] = in_pay[2 * k]; stream[slen++] = in_pay[2 * k + 1]; }
#ifdef WITH_ERROR
    put_hdr(0x12, 2); stream[slen++] = 'e'; stream[slen++] = 'r';
#endif
    put_hdr(0x11, 4); stream[slen++] = (uint8_t)in_code; stream[slen++] = (uint8_t)(in_code >> 8); stream[slen++] = (uint8_t)(in_code >> 16); stream[slen++] = (uint8_t)(in_code >> 24);
    static VmdClient cl; cl.fd = 5;
    static uint8_t blob[4];
    int rc = vmd_execute(&cl, blob, 4);
    CHECK(rc == (int)in_code, "the client's status is the exit code the daemon sent");
    CHECK(!out_overflow && outn == NOUT * 2, "stdout receives exactly as many bytes as the program printed");
    for (int i = 0; i < NOUT * 2; i++) CHECK(outrec[i] == in_pay[i], "stdout receives the program's bytes in order, whatever the chunking");
    WITNESS("session received");
}
