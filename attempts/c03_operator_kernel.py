#!/usr/bin/env python3
"""C03 (operator kernel): the compile-time evaluator's operators agree with the compiled operators for all operand values."""
import os, sys, time
sys.path.insert(0, os.path.join(os.path.dirname(os.path.abspath(__file__)), '..', 'lib'))
from vlib import *

OPS = [  # (token, name, nargs, bools, divlike, reference check, smt?)
    ('TOKEN_PLUS', 'add', 2, 0, 0, 'r.type == VAL_INT && r.as.int_val == (long long)((uint64_t)a + (uint64_t)b)', False),
    ('TOKEN_MINUS', 'sub', 2, 0, 0, 'r.type == VAL_INT && r.as.int_val == (long long)((uint64_t)a - (uint64_t)b)', False),
    ('TOKEN_STAR', 'mul', 2, 0, 0, 'r.type == VAL_INT && r.as.int_val == (long long)((uint64_t)a * (uint64_t)b)', True),
    ('TOKEN_SLASH', 'div', 2, 0, 1, 'r.type == VAL_INT && r.as.int_val == a / b', True),
    ('TOKEN_PERCENT', 'mod', 2, 0, 1, 'r.type == VAL_INT && r.as.int_val == a % b', True),
    ('TOKEN_MINUS', 'neg', 1, 0, 0, 'r.type == VAL_INT && r.as.int_val == (long long)(0 - (uint64_t)a)', False),
    ('TOKEN_EQ', 'eq', 2, 0, 0, 'r.type == VAL_BOOL && r.as.bool_val == (a == b)', False),
    ('TOKEN_NE', 'ne', 2, 0, 0, 'r.type == VAL_BOOL && r.as.bool_val == (a != b)', False),
    ('TOKEN_LT', 'lt', 2, 0, 0, 'r.type == VAL_BOOL && r.as.bool_val == (a < b)', False),
    ('TOKEN_LE', 'le', 2, 0, 0, 'r.type == VAL_BOOL && r.as.bool_val == (a <= b)', False),
    ('TOKEN_GT', 'gt', 2, 0, 0, 'r.type == VAL_BOOL && r.as.bool_val == (a > b)', False),
    ('TOKEN_GE', 'ge', 2, 0, 0, 'r.type == VAL_BOOL && r.as.bool_val == (a >= b)', False),
    ('TOKEN_AND', 'and', 2, 1, 0, 'r.type == VAL_BOOL && r.as.bool_val == (p && q)', False),
    ('TOKEN_OR', 'or', 2, 1, 0, 'r.type == VAL_BOOL && r.as.bool_val == (p || q)', False),
    ('TOKEN_NOT', 'not', 1, 1, 0, 'r.type == VAL_BOOL && r.as.bool_val == (!p)', False),
    ('TOKEN_EQ', 'eq_bool', 2, 1, 0, 'r.type == VAL_BOOL && r.as.bool_val == (p == q)', False),
]

def jobs(tier):
    out = []
    for tok, nm, nargs, bools, divlike, ref, smt in OPS:
        j = Job(name='c03_evalop_%s' % nm, harness='eval_ops.c', sources=[], defines={'OPK': tok, 'NARGS': nargs, 'BOOLS': bools, 'DIVLIKE': divlike, 'REF_CHECK': '"(%s)"' % ref if False else None},
                unwind=6, gen_bodies=True, flags=['--slice-formula'], overflow=False, timeout=900, replay='none', must_witness=['evaluated'], group='evaluator_operator_kernels',
                desc={'operator': nm, 'symbolic': 'both operands (all int64 pairs / both truth values)', 'reference': ref})
        j.defines = {'OPK': tok, 'NARGS': nargs, 'BOOLS': bools, 'DIVLIKE': divlike}
        j.extra_cflags = ['-DREF_CHECK=(%s)' % ref]
        if smt:
            j.smt = True; j.smt_property = 'same value as the compiled operator'; j.expect_witness = False; j.must_witness = []
        out.append(j)
    return out

def main():
    tier = tier_arg(); t0 = time.time()
    js = jobs(tier)
    run_jobs(js)
    meta = {
        'functions_encoded': ['eval.c: eval_prefix_op, eval_expression (literal arms), is_truthy'],
        'bounds': {'operators': '%d operator/arity instances on int and bool literals' % len(js), 'operands': 'all int64 pairs (x / 0 and INT64_MIN / -1 excluded), both truth values'},
        'outside': ['everything above single operators: statements, calls, scoping, strings, arrays, hashmaps, printing - eval.c at statement level gave no verdict (attempts/shadow_gate.c, 600 s for one assert statement); the seeded changes C03/a (hashmap tombstones) and C03/b (char_at sign extension) are NOT detected',
                    'float operators'],
        'assumptions': ['reference = the C operators the native backend emits (64-bit wrap, truncating division)', 'functions without a body return arbitrary values (not reached for literal operands)'],
        'stubs': ['env.c create_int/create_bool/create_void transcribed', 'exit, fprintf'],
        'backend': 'SAT; * / % via exported SMT2 decided by z3 and cvc5',
        'explanation': 'The evaluator is run on a prefix-operator node whose two operands are literal nodes with symbolic values; its result value must equal the compiled operator\'s for every operand pair.',
    }
    sys.exit(finish('C03', tier, 'model_checking', js, meta, t0))

if __name__ == '__main__':
    main()
