/* C20 (runtime/gc.c): a bounded history of retain/release on NOBJ freshly allocated objects (type STRING: no
 * children), each step's (operation, object) symbolic.  A reference model (counts) says which objects are
 * live; steps are only applied to model-live objects (a program inside the language never touches a dead
 * reference).  Asserts: no memory error (CBMC), managed-set == model-live set after every step, object
 * count statistic == number of live objects, allocation list contains exactly the live objects. */
#include "verif.h"
#include <stdlib.h>
#include <stdio.h>
#ifndef REPLAY
int fprintf(FILE *f, const char *fmt, ...) { (void)f; (void)fmt; return 0; }
#endif
#include "gc.c"
int verif_abort_flag;
#ifndef NOBJ
#define NOBJ 2
#endif
#ifndef STEPS
#define STEPS 3
#endif
void harness(void) {
    void *obj[NOBJ]; uint32_t model[NOBJ];
    ND_ARR(uint8_t, in_op, STEPS); ND_ARR(uint8_t, in_which, STEPS);
    for (int i = 0; i < NOBJ; i++) { obj[i] = gc_alloc(8, GC_TYPE_STRING); ASSUME(obj[i] != NULL); model[i] = 1; }
    for (int s = 0; s < STEPS; s++) {
        uint8_t w = in_which[s]; ASSUME(w < NOBJ);
        ASSUME(model[w] > 0);
        if (in_op[s] & 1) { gc_retain(obj[w]); model[w]++; }
        else { gc_release(obj[w]); model[w]--; }
        uint32_t live = 0;
        for (int i = 0; i < NOBJ; i++) {
            if (model[i] > 0) { live++; CHECK(gc_is_managed(obj[i]), "a referenced object stays managed (not freed)");
                                CHECK(gc_get_header(obj[i])->ref_count == model[i], "reference count equals the model"); }
            else CHECK(!gc_is_managed(obj[i]), "an object whose count reached zero is released exactly then");
        }
        CHECK(gc_state.stats.num_objects == live, "live-object statistic equals the number of live objects");
        uint32_t n = 0; for (GCHeader *h = gc_state.all_objects; h && n <= NOBJ; h = h->next) n++;
        CHECK(n == live, "allocation list holds exactly the live objects");
    }
    WITNESS("history done");
}
