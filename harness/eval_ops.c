/* C03 (operator kernel): eval.c's eval_prefix_op on (op <number a> <number b>) with symbolic a, b - the value the
 * compile-time evaluator computes for a shadow test equals the value of the native operator (C semantics of the
 * generated code: 64-bit wrap, truncating division), for ALL operand values.  Division by zero and INT64_MIN / -1
 * (undefined natively) are excluded. */
#include "verif.h"
#include <stdlib.h>
#include <stdio.h>
static int ghost_exit_called;
#ifndef REPLAY
void exit(int c) { (void)c; ghost_exit_called = 1; __CPROVER_assume(0); }
int fprintf(FILE *f, const char *fmt, ...) { (void)f; (void)fmt; return 0; }
#endif
#include "eval.c"
int verif_abort_flag;
#ifndef REPLAY
static const Value VZ;
Value create_int(long long v) { Value r = VZ; r.type = VAL_INT; r.as.int_val = v; return r; }
Value create_bool(bool v) { Value r = VZ; r.type = VAL_BOOL; r.as.bool_val = v; return r; }
Value create_void(void) { Value r = VZ; r.type = VAL_VOID; return r; }
#endif
static ASTNode na, nb, nop; static ASTNode *argv2[2]; static Environment env;
void harness(void) {
    ND(int64_t, in_a); ND(int64_t, in_b); ND(uint8_t, in_p); ND(uint8_t, in_q);
#if BOOLS
    na = (ASTNode){ .type = AST_BOOL, .as.bool_val = in_p & 1 }; nb = (ASTNode){ .type = AST_BOOL, .as.bool_val = in_q & 1 };
#else
    na = (ASTNode){ .type = AST_NUMBER, .as.number = in_a }; nb = (ASTNode){ .type = AST_NUMBER, .as.number = in_b };
#endif
    argv2[0] = &na; argv2[1] = &nb;
    nop = (ASTNode){ .type = AST_PREFIX_OP, .as.prefix_op = { .op = OPK, .args = argv2, .arg_count = NARGS } };
#if DIVLIKE
    ASSUME(in_b != 0 && !(in_b == -1 && in_a == INT64_MIN));
#endif
    Value r = eval_prefix_op(&nop, &env);
    const int64_t a = in_a, b = in_b; const int p = in_p & 1, q = in_q & 1;
    (void)a; (void)b; (void)p; (void)q;
    CHECK(REF_CHECK, "the compile-time evaluator computes the same value as the compiled operator");
    WITNESS("evaluated");
}
