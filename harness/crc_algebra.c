/* C12 L3: algebra of the real nvm_crc32 (statics reached by including the TU).
 * PART 1: table == reflected CRC-32 table of polynomial 0xEDB88320, and a second init is a no-op.
 * PART 2: GF(2)-affinity on N-byte messages: crc(a^e) ^ crc(a) == crc(e) ^ crc(0^N)   (all a, e)
 * PART 3: every non-zero error pattern confined to a 32-bit window starting at bit offset OFS (0..7) of a
 *         5-byte message changes the CRC:  crc(e) != crc(0^5)
 * PART 4: one more message byte is a bijection on the 32-bit state for a fixed byte: step(s,b)==step(s',b) => s==s'
 *         (so equal-suffix bytes after a difference can never cancel it), checked on the real table.
 * PARTS 2-4 give by induction over the message length: any burst of <= 32 bits anywhere in a body of ANY
 * length changes nvm_crc32 (see evidence.explanation). */
#include "verif.h"
#include "nvm_format.c"
int verif_abort_flag;

static uint32_t ref_entry(uint32_t i) { uint32_t c = i; for (int j = 0; j < 8; j++) c = (c & 1) ? (c >> 1) ^ 0xEDB88320u : (c >> 1); return c; }

void harness(void) {
#if PART == 1
    uint8_t z[1] = {0};
    (void)nvm_crc32(z, 0);
    CHECK(crc32_initialized, "table initialised by first use");
    for (uint32_t i = 0; i < 256; i++) CHECK(crc32_table[i] == ref_entry(i), "table entry equals reflected CRC-32 (0xEDB88320) entry");
    CHECK(nvm_crc32(z, 0) == 0, "crc of empty message is 0");
    uint8_t chk[9] = {'1','2','3','4','5','6','7','8','9'};
    CHECK(nvm_crc32(chk, 9) == 0xCBF43926u, "standard check value");
    WITNESS("table done");
#elif PART == 2
    ND_ARR(uint8_t, in_a, N); ND_ARR(uint8_t, in_e, N);
    uint8_t x[N], zero[N];
    for (int i = 0; i < N; i++) { x[i] = in_a[i] ^ in_e[i]; zero[i] = 0; }
    CHECK((nvm_crc32(x, N) ^ nvm_crc32(in_a, N)) == (nvm_crc32(in_e, N) ^ nvm_crc32(zero, N)), "crc is affine over GF(2)");
    WITNESS("affine done");
#elif PART == 6
    /* the table is GF(2)-linear: T[x^y] == T[x]^T[y]  => one step is linear in (state, byte) */
    (void)nvm_crc32((const uint8_t *)"", 0);
    ND(uint8_t, in_x); ND(uint8_t, in_y);
    CHECK(crc32_table[in_x ^ in_y] == (crc32_table[in_x] ^ crc32_table[in_y]), "table is linear over GF(2)");
    /* difference state after the 5 bytes covering a 32-bit window, starting from equal prefixes (difference 0) */
    ND(uint32_t, in_burst); ASSUME(in_burst != 0);
    uint64_t w = (uint64_t)in_burst << OFS;
    uint32_t d = 0;
    for (int i = 0; i < 5; i++) d = (d >> 8) ^ crc32_table[(d ^ (uint8_t)(w >> (8 * i))) & 0xFF];
    CHECK(d != 0, "difference state after a burst of <= 32 bits is non-zero");
    WITNESS("linear done");
#elif PART == 5
    /* definition: nvm_crc32(m, N) is the standard reflected CRC-32 of m, for every message of N bytes */
    ND_ARR(uint8_t, in_m, N + 1);
    uint32_t c = 0xFFFFFFFFu;
    for (int i = 0; i < N; i++) c = (c >> 8) ^ ref_entry((c ^ in_m[i]) & 0xFF);
    CHECK(nvm_crc32(in_m, N) == (c ^ 0xFFFFFFFFu), "nvm_crc32 equals the reference CRC-32 on every message of this length");
    WITNESS("definition done");
#elif PART == 3
    ND(uint32_t, in_burst); ASSUME(in_burst != 0);
    uint8_t e[5] = {0, 0, 0, 0, 0}, zero[5] = {0, 0, 0, 0, 0};
    uint64_t w = (uint64_t)in_burst << OFS;            /* 32-bit window at bit offset OFS of the 40-bit message */
    for (int i = 0; i < 5; i++) e[i] = (uint8_t)(w >> (8 * i));
    CHECK(nvm_crc32(e, 5) != nvm_crc32(zero, 5), "a burst of <= 32 bits changes the checksum");
    WITNESS("burst done");
#elif PART == 4
    (void)nvm_crc32((const uint8_t *)"", 0);
    ND(uint32_t, in_s1); ND(uint32_t, in_s2); ND(uint8_t, in_b);
    uint32_t t1 = (in_s1 >> 8) ^ crc32_table[(in_s1 ^ in_b) & 0xFF];
    uint32_t t2 = (in_s2 >> 8) ^ crc32_table[(in_s2 ^ in_b) & 0xFF];
    CHECK(t1 != t2 || in_s1 == in_s2, "state update for one byte is injective");
    /* and the real function performs exactly this update: crc(m||b) from crc(m) */
    ND_ARR(uint8_t, in_m, 3);
    uint32_t s = nvm_crc32(in_m, 2) ^ 0xFFFFFFFFu;
    uint32_t nxt = ((s >> 8) ^ crc32_table[(s ^ in_m[2]) & 0xFF]) ^ 0xFFFFFFFFu;
    CHECK(nvm_crc32(in_m, 3) == nxt, "nvm_crc32 processes bytes by the table step, final xor 0xFFFFFFFF");
    WITNESS("step done");
#endif
}
