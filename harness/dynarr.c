/* C08 (native runtime) + C20: one operation of runtime/dyn_array.c from an arbitrary valid DynArray.
 * Concrete: element kind EK, capacity CAP, operation OP.  Symbolic: length 0..CAP, contents, index (any
 * int64), value.  The repository's assert() is the documented native fault: the stub <assert.h> ends the
 * path there, so "returns normally with an out-of-range index" is what the checks below exclude.
 * Pre-state invariant: 0 <= length <= capacity, data has capacity*elem_size bytes, elem_size matches kind. */
#include "verif.h"
#include <stdlib.h>
#include <stdio.h>
#include <stdbool.h>
#include "dyn_array.h"
int verif_abort_flag;

#define OP_GET 1
#define OP_SET 2
#define OP_POP 3
#define OP_REMOVE 4
#define OP_PUSH 5
#define OP_CLEAR 6
#define OP_RESERVE 7
#define OP_CLONE 8
#define OP_GET_STRUCT 9
#define OP_SET_STRUCT 10
#define OP_PUSH_STRUCT 11
#define OP_POP_STRUCT 12

#ifndef CAP
#define CAP 4
#endif
#ifndef STRUCT_SIZE
#define STRUCT_SIZE 12
#endif

#if EK == 1
typedef int64_t elem_t;
#define GET dyn_array_get_int
#define SET dyn_array_set_int
#define POP dyn_array_pop_int
#define PUSH dyn_array_push_int
#elif EK == 8
typedef uint8_t elem_t;
#define GET dyn_array_get_u8
#define SET dyn_array_set_u8
#define POP dyn_array_pop_u8
#define PUSH dyn_array_push_u8
#elif EK == 2
typedef uint64_t elem_t;            /* doubles compared as bit patterns */
#elif EK == 4
typedef bool elem_t;
#define GET dyn_array_get_bool
#define SET dyn_array_set_bool
#define POP dyn_array_pop_bool
#define PUSH dyn_array_push_bool
#elif EK == 3
typedef char *elem_t;
#define GET dyn_array_get_string
#define SET(a, i, v) dyn_array_set_string(a, i, (const char *)(v))
#define POP(a, s) ((char *)dyn_array_pop_string(a, s))
#define PUSH(a, v) dyn_array_push_string(a, (const char *)(v))
#elif EK == 5
typedef DynArray *elem_t;
#define GET dyn_array_get_array
#define SET dyn_array_set_array
#define POP dyn_array_pop_array
#define PUSH dyn_array_push_array
#elif EK == 6
typedef struct { uint8_t b[STRUCT_SIZE]; } elem_t;
#endif

#if EK == 2
static uint64_t fbits(double d) { uint64_t u; memcpy(&u, &d, 8); return u; }
static double fdbl(uint64_t u) { double d; memcpy(&d, &u, 8); return d; }
#define GET(a, i) fbits(dyn_array_get_float(a, i))
#define SET(a, i, v) dyn_array_set_float(a, i, fdbl(v))
#define POP(a, s) fbits(dyn_array_pop_float(a, s))
#define PUSH(a, v) dyn_array_push_float(a, fdbl(v))
#endif

/* gc_alloc is only reached by clone: modelled as calloc with a header-less object (gc.c is C20's own subject) */
#ifndef REPLAY
void *gc_alloc(size_t size, GCObjectType type) { (void)type; void *p = calloc(1, size); __CPROVER_assume(p != 0); return p; }
void gc_release(void *p) { (void)p; }
int fprintf(FILE *f, const char *fmt, ...) { (void)f; (void)fmt; return 0; }
/* CBMC's built-in memmove/memcpy models were measured to be imprecise for symbolic sizes (a counterexample that
 * did not replay natively); byte loops are exact.  Sizes here are <= (CAP+1)*sizeof(elem_t). */
void *memmove(void *d, const void *s, size_t n) {
    unsigned char *dd = d; const unsigned char *ss = s;
    if (dd < ss) for (size_t i = 0; i < n; i++) dd[i] = ss[i];
    else for (size_t i = n; i > 0; i--) dd[i - 1] = ss[i - 1];
    return d;
}
void *memcpy(void *d, const void *s, size_t n) {
    unsigned char *dd = d; const unsigned char *ss = s;
    for (size_t i = 0; i < n; i++) dd[i] = ss[i];
    return d;
}
#endif

void harness(void) {
    ND(int64_t, in_len); ND(int64_t, in_index);
    ASSUME(in_len >= 0 && in_len <= CAP);
    DynArray arr;
    arr.length = in_len; arr.capacity = CAP; arr.elem_type = (ElementType)EK; arr.elem_size = sizeof(elem_t);
    elem_t *data = malloc(CAP * sizeof(elem_t));
    ASSUME(data != NULL);
    elem_t model[CAP + 1];
#if EK == 6
    ND_ARR(uint8_t, in_bytes, (CAP + 1) * STRUCT_SIZE);
    for (int i = 0; i < CAP + 1; i++) for (int k = 0; k < STRUCT_SIZE; k++) model[i].b[k] = in_bytes[i * STRUCT_SIZE + k];
    for (int i = 0; i < CAP; i++) data[i] = model[i];
    elem_t val = model[CAP];
#elif EK == 3 || EK == 5
    ND_ARR(uint64_t, in_ptrs, CAP + 1);
    for (int i = 0; i < CAP; i++) { model[i] = (elem_t)(uintptr_t)in_ptrs[i]; data[i] = model[i]; }
    elem_t val = (elem_t)(uintptr_t)in_ptrs[CAP];
#else
    ND_ARR(uint64_t, in_vals, CAP + 1);
    for (int i = 0; i < CAP; i++) { model[i] = (elem_t)in_vals[i]; data[i] = model[i]; }
    elem_t val = (elem_t)in_vals[CAP];
#endif
    arr.data = data;
    const int in_range = (in_index >= 0 && in_index < in_len);

#if OP == OP_GET
    elem_t r = GET(&arr, in_index);
    CHECK(in_range, "get with an out-of-range index does not return");
    if (in_range) CHECK(r == model[in_index], "get returns element i");
    WITNESS("get returned");
#elif OP == OP_SET
    SET(&arr, in_index, val);
    CHECK(in_range, "set with an out-of-range index does not return");
    for (int i = 0; i < CAP; i++) if (i < in_len) CHECK(((elem_t *)arr.data)[i] == (i == in_index ? val : model[i]), "set updates exactly element i");
    CHECK(arr.length == in_len && arr.capacity == CAP, "set keeps length and capacity");
    WITNESS("set returned");
#elif OP == OP_POP
    bool ok = true;
    elem_t r = POP(&arr, &ok);
    if (in_len == 0) { CHECK(!ok, "pop on empty reports failure"); CHECK(arr.length == 0, "pop on empty keeps length 0"); WITNESS("pop empty"); }
    else { CHECK(ok && arr.length == in_len - 1 && r == model[in_len - 1], "pop returns the last element and shortens by one"); WITNESS("pop nonempty"); }
#elif OP == OP_REMOVE
    DynArray *r = dyn_array_remove_at(&arr, in_index);
    CHECK(in_range, "remove_at with an out-of-range index does not return");
    CHECK(r == &arr && arr.length == in_len - 1, "remove shortens by one");
#if EK != 6
    for (int i = 0; i < CAP; i++) if (i < in_len - 1) CHECK(((elem_t *)arr.data)[i] == model[i < in_index ? i : i + 1], "remove shifts the tail left");
#endif
    WITNESS("remove returned");
#elif OP == OP_PUSH
    DynArray *r = PUSH(&arr, val);
    CHECK(r == &arr && arr.length == in_len + 1, "push appends one element");
    CHECK(arr.capacity >= arr.length, "Inv: length <= capacity after push (growth)");
    for (int i = 0; i < CAP + 1; i++) if (i <= in_len) CHECK(((elem_t *)arr.data)[i] == (i == in_len ? val : model[i]), "push keeps the prefix and stores the value last");
    WITNESS("push returned");
#elif OP == OP_CLEAR
    dyn_array_clear(&arr);
    CHECK(arr.length == 0 && arr.capacity == CAP, "clear empties");
    WITNESS("clear returned");
#elif OP == OP_RESERVE
    ND(int64_t, in_newcap); ASSUME(in_newcap >= 0 && in_newcap <= 2 * CAP);
    dyn_array_reserve(&arr, in_newcap);
    CHECK(arr.capacity >= in_newcap && arr.capacity >= CAP && arr.length == in_len, "reserve grows capacity, keeps length");
    for (int i = 0; i < CAP; i++) if (i < in_len) CHECK(((elem_t *)arr.data)[i] == model[i], "reserve keeps contents");
    WITNESS("reserve returned");
#elif OP == OP_CLONE
    DynArray *c = dyn_array_clone(&arr);
    CHECK(c != NULL && c != &arr && c->length == in_len && c->capacity >= in_len && c->elem_type == arr.elem_type, "clone has same length and type");
    for (int i = 0; i < CAP; i++) if (i < in_len) CHECK(((elem_t *)c->data)[i] == model[i], "clone copies contents");
    CHECK(c->data != arr.data, "clone has its own storage");
    WITNESS("clone returned");
#elif OP == OP_GET_STRUCT
    void *p = dyn_array_get_struct(&arr, in_index);
    CHECK(in_range, "get_struct with an out-of-range index does not return");
    if (in_range) CHECK(p == (uint8_t *)arr.data + in_index * STRUCT_SIZE, "get_struct returns element i");
    WITNESS("get_struct returned");
#elif OP == OP_SET_STRUCT
    dyn_array_set_struct(&arr, in_index, &val, STRUCT_SIZE);
    CHECK(in_range, "set_struct with an out-of-range index does not return");
    WITNESS("set_struct returned");
#elif OP == OP_PUSH_STRUCT
    DynArray *r = dyn_array_push_struct(&arr, &val, STRUCT_SIZE);
    CHECK(r == &arr && arr.length == in_len + 1 && arr.capacity >= arr.length, "push_struct appends");
    for (int k = 0; k < STRUCT_SIZE; k++) CHECK(((uint8_t *)arr.data)[in_len * STRUCT_SIZE + k] == val.b[k], "push_struct stores a copy last");
    WITNESS("push_struct returned");
#elif OP == OP_POP_STRUCT
    elem_t out; bool ok = true;
    dyn_array_pop_struct(&arr, &out, STRUCT_SIZE, &ok);
    if (in_len == 0) { CHECK(!ok, "pop_struct on empty reports failure"); WITNESS("pop_struct empty"); }
    else { CHECK(ok && arr.length == in_len - 1, "pop_struct shortens"); for (int k = 0; k < STRUCT_SIZE; k++) CHECK(out.b[k] == model[in_len - 1].b[k], "pop_struct copies the last element"); WITNESS("pop_struct nonempty"); }
#endif
}
