/* C15 (wire codec) / C16 (undecodable replies): cop_serialize_value / cop_deserialize_value of the real
 * cop_protocol.c with the real heap.c.
 * MODE 0: round trip of a value of concrete SHAPE with symbolic contents through a buffer of symbolic size.
 * MODE 1: decoder on an arbitrary buffer of exactly SIZE bytes whose leading tag bytes are fixed (TAG0, and for
 *         arrays ETAG) - memory safety, bounded work, consumed <= SIZE. */
#include "verif.h"
#include <stdlib.h>
#include "cop_protocol.h"
#include "heap.h"
int verif_abort_flag;
#ifndef REPLAY
#include <stdarg.h>
#include <stdio.h>
int snprintf(char *s, size_t n, const char *f, ...) { (void)f; if (n) s[0] = 0; return 0; }
#endif
#define SH_INT 1
#define SH_FLOAT 2
#define SH_BOOL 3
#define SH_VOID 4
#define SH_OPAQUE 5
#define SH_STR 6        /* string of SLEN bytes */
#define SH_ARR_INT 7    /* array of ALEN ints */
#define SH_ARR_STR 8    /* array of ALEN strings of SLEN bytes */
#define SH_ARR_ARR 9    /* array of ALEN arrays of 1 int */
#define SH_ARR_FLOAT 10
#define SH_ARR_BOOL 11
#ifndef SLEN
#define SLEN 2
#endif
#ifndef ALEN
#define ALEN 2
#endif
#ifndef CAP
#define CAP 64
#endif
static VmString *intern[16];
static VmHeap heap;

static VmString *mkstr(const uint8_t *b, uint32_t n) {
    VmString *s = malloc(sizeof(VmString) + n + 1); ASSUME(s != NULL);
    s->header.ref_count = 1; s->header.obj_type = TAG_STRING; s->length = n; s->hash = 0;
    for (uint32_t i = 0; i < n; i++) s->data[i] = (char)b[i];
    s->data[n] = 0; return s;
}
static VmArray *mkarr(uint8_t et, uint32_t n) {
    VmArray *a = malloc(sizeof(VmArray)); ASSUME(a != NULL);
    a->header.ref_count = 1; a->header.obj_type = TAG_ARRAY; a->elem_type = et; a->length = n; a->capacity = n ? n : 1;
    a->elements = calloc(a->capacity, sizeof(NanoValue)); ASSUME(a->elements != NULL); return a;
}
static int same(NanoValue a, NanoValue b, int depth) {
    if (a.tag != b.tag) return 0;
    switch (a.tag) {
    case TAG_INT: case TAG_OPAQUE: return a.as.i64 == b.as.i64;
    case TAG_FLOAT: { uint64_t x, y; memcpy(&x, &a.as.f64, 8); memcpy(&y, &b.as.f64, 8); return x == y; }
    case TAG_BOOL: return (a.as.boolean != 0) == (b.as.boolean != 0);
    case TAG_VOID: return 1;
    case TAG_STRING: if (a.as.string->length != b.as.string->length) return 0;
        for (uint32_t i = 0; i < SLEN + 1; i++) if (i < a.as.string->length && a.as.string->data[i] != b.as.string->data[i]) return 0;
        return b.as.string->data[b.as.string->length] == 0;
    case TAG_ARRAY: if (!b.as.array || a.as.array->length != b.as.array->length || a.as.array->elem_type != b.as.array->elem_type) return 0;
        if (depth <= 0) return 1;
        for (uint32_t i = 0; i < ALEN + 1; i++) if (i < a.as.array->length && !same(a.as.array->elements[i], b.as.array->elements[i], depth - 1)) return 0;
        return 1;
    }
    return 0;
}

void harness(void) {
    heap.intern_table = intern; heap.intern_capacity = 16; heap.intern_count = 0;
#if MODE == 0
    ND(int64_t, in_i); ND(uint64_t, in_f); ND(uint8_t, in_b); ND_ARR(uint8_t, in_s, 8); ND_ARR(int64_t, in_a, 4); ND_ARR(uint64_t, in_fa, 4);
    ND(uint32_t, in_bufsize); ASSUME(in_bufsize <= CAP);
    ND_ARR(uint8_t, in_fill, CAP);
    static const NanoValue Z; NanoValue v = Z;
    uint32_t E = 1;
#if SHAPE == SH_INT
    v.tag = TAG_INT; v.as.i64 = in_i; E = 9;
#elif SHAPE == SH_OPAQUE
    v.tag = TAG_OPAQUE; v.as.i64 = in_i; E = 9;
#elif SHAPE == SH_FLOAT
    v.tag = TAG_FLOAT; memcpy(&v.as.f64, &in_f, 8); E = 9;
#elif SHAPE == SH_BOOL
    v.tag = TAG_BOOL; v.as.boolean = in_b & 1; E = 2;
#elif SHAPE == SH_VOID
    v.tag = TAG_VOID; E = 1;
#elif SHAPE == SH_STR
    v.tag = TAG_STRING; v.as.string = mkstr(in_s, SLEN); E = 5 + SLEN;
#elif SHAPE == SH_ARR_INT || SHAPE == SH_ARR_FLOAT || SHAPE == SH_ARR_BOOL || SHAPE == SH_ARR_STR || SHAPE == SH_ARR_ARR
    { VmArray *a = mkarr(SHAPE == SH_ARR_INT ? TAG_INT : SHAPE == SH_ARR_FLOAT ? TAG_FLOAT : SHAPE == SH_ARR_BOOL ? TAG_BOOL : SHAPE == SH_ARR_STR ? TAG_STRING : TAG_ARRAY, ALEN);
      E = 6;
      for (int k = 0; k < ALEN; k++) {
          NanoValue e = Z;
#if SHAPE == SH_ARR_INT
          e.tag = TAG_INT; e.as.i64 = in_a[k]; E += 9;
#elif SHAPE == SH_ARR_FLOAT
          e.tag = TAG_FLOAT; memcpy(&e.as.f64, &in_fa[k], 8); E += 9;
#elif SHAPE == SH_ARR_BOOL
          e.tag = TAG_BOOL; e.as.boolean = (in_s[k] & 1); E += 2;
#elif SHAPE == SH_ARR_STR
          e.tag = TAG_STRING; e.as.string = mkstr(in_s + 2 * k, SLEN); E += 5 + SLEN;
#else
          { VmArray *in = mkarr(TAG_INT, 1); in->elements[0] = Z; in->elements[0].tag = TAG_INT; in->elements[0].as.i64 = in_a[k]; e.tag = TAG_ARRAY; e.as.array = in; E += 6 + 9; }
#endif
          a->elements[k] = e;
      }
      v.tag = TAG_ARRAY; v.as.array = a; }
#endif
    uint8_t buf[CAP];
    for (int i = 0; i < CAP; i++) buf[i] = in_fill[i];
    uint32_t n = cop_serialize_value(&v, buf, in_bufsize);
    for (int i = 0; i < CAP; i++) if ((uint32_t)i >= in_bufsize) CHECK(buf[i] == in_fill[i], "serialize never writes past buf_size");
    if (in_bufsize < E) { CHECK(n == 0, "serialize reports failure when the buffer is too small"); WITNESS("too small"); return; }
    CHECK(n == E, "serialized size is the documented size");
    /* Assert the wire layout's structural bytes (tags, counts, lengths), then re-assign them as constants: the
     * decoder then runs on constant structure and symbolic payload (otherwise every tag arm is explored). */
#define FIX8(off, val) do { CHECK(buf[off] == (uint8_t)(val), "wire layout: structural byte as documented"); buf[off] = (uint8_t)(val); } while (0)
#define FIX32(off, val) do { FIX8(off, (val) & 0xFF); FIX8((off) + 1, ((val) >> 8) & 0xFF); FIX8((off) + 2, ((val) >> 16) & 0xFF); FIX8((off) + 3, ((val) >> 24) & 0xFF); } while (0)
    FIX8(0, v.tag);
#if SHAPE == SH_STR
    FIX32(1, SLEN);
#elif SHAPE == SH_ARR_INT || SHAPE == SH_ARR_FLOAT || SHAPE == SH_ARR_BOOL || SHAPE == SH_ARR_STR || SHAPE == SH_ARR_ARR
    FIX8(1, v.as.array->elem_type); FIX32(2, ALEN);
    { uint32_t off = 6;
      for (int k = 0; k < ALEN; k++) {
#if SHAPE == SH_ARR_INT
          FIX8(off, TAG_INT); off += 9;
#elif SHAPE == SH_ARR_FLOAT
          FIX8(off, TAG_FLOAT); off += 9;
#elif SHAPE == SH_ARR_BOOL
          FIX8(off, TAG_BOOL); off += 2;
#elif SHAPE == SH_ARR_STR
          FIX8(off, TAG_STRING); FIX32(off + 1, SLEN); off += 5 + SLEN;
#else
          FIX8(off, TAG_ARRAY); FIX8(off + 1, TAG_INT); FIX32(off + 2, 1); FIX8(off + 6, TAG_INT); off += 15;
#endif
      } }
#endif
#ifndef TRUNC
    NanoValue out = Z;
    uint32_t m = cop_deserialize_value(buf, n, &out, &heap);
    CHECK(m == n, "deserialize consumes exactly what serialize wrote");
    CHECK(same(v, out, 2), "deserialize(serialize(v)) is bit-identical to v");
#endif
#ifdef TRUNC
    ND(uint32_t, in_cut); ASSUME(in_cut < E);
    NanoValue out2 = Z;
    CHECK(cop_deserialize_value(buf, in_cut, &out2, &heap) == 0, "a truncated value is refused");
#endif
    WITNESS("round trip done");
#else
    ND_ARR(uint8_t, in_buf, SIZE);
    in_buf[0] = TAG0;
#ifdef ETAG
    in_buf[1] = ETAG;
#endif
#ifdef COUNT      /* array element count fixed (little endian at offset 2) */
    in_buf[2] = (uint8_t)((COUNT) & 0xFF); in_buf[3] = (uint8_t)(((COUNT) >> 8) & 0xFF); in_buf[4] = (uint8_t)(((COUNT) >> 16) & 0xFF); in_buf[5] = (uint8_t)(((COUNT) >> 24) & 0xFF);
#endif
#ifdef TAG1
    in_buf[6] = TAG1;       /* first element's tag of an array value */
#endif
#ifdef TAG2
    in_buf[TAG2_OFF] = TAG2;
#endif
    static const NanoValue Z2; NanoValue out = Z2;
    uint32_t m = cop_deserialize_value(in_buf, SIZE, &out, &heap);
    CHECK(m <= SIZE, "decoder never consumes more than the buffer holds");
    if (m == 0) WITNESS("refused"); else WITNESS("decoded");
#endif
}
