/* C05 / C06 (driver gating): the real driver of each tool with every phase replaced by a stub whose outcome is
 * symbolic and which records that it ran.  TOOL 1 = nano_virt (nanovirt/main.c main), TOOL 2 = nanoc
 * (main.c compile_file).  Asserts: a failed front-end phase (lexer, parser, imports, TYPE CHECK, SHADOW TESTS)
 * => non-zero status and no later phase ran: no code generation, no file opened for writing, no cc/system, no
 * VM execution.  Every function without a body in this binary returns an arbitrary value (goto-instrument
 * --generate-function-body), pointer safety is not the subject here. */
#include <stdio.h>
#include <stdlib.h>
#include <stdbool.h>
#include <string.h>
int verif_abort_flag;
int nondet_int(void);
static int g_tok_called, g_parse_called, g_imp_called, g_tc_called, g_shadow_called, g_transpile_called, g_codegen_called,
           g_write_open, g_system_called, g_exec_called, g_wrapper_called, g_serialize_called;
static int o_tok, o_parse, o_imp, o_tc, o_shadow, o_transpile, o_codegen;
static int g_order_violation;
static int o_vmresult, o_verify_ok; static unsigned char o_tag; static long long o_i64;   /* C10: outcome of the run */
#define LATER_RAN() (g_transpile_called || g_codegen_called || g_write_open || g_system_called || g_exec_called || g_wrapper_called)

#if TOOL == 1
#define main nano_virt_main
#include "nanovirt/main.c"
#undef main
#elif TOOL == 3
#define main nano_vm_main
#include "nanovm/main.c"
#undef main
#else
#define main nanoc_main
#include "main.c"
#undef main
#endif

/* ---- phase stubs (signatures from nanolang.h) ---- */
static Token g_tokens[2]; static ASTNode g_prog; static Environment g_env; static ModuleList g_mods; static char g_src[4] = "x";
Token *tokenize(const char *src, int *count) { (void)src; g_tok_called = 1; *count = 1; return o_tok ? g_tokens : NULL; }
ASTNode *parse_program(Token *t, int n) { (void)t; (void)n; g_parse_called = 1; if (!o_tok) g_order_violation = 1; return o_parse ? &g_prog : NULL; }
Environment *create_environment(void) { return &g_env; }
ModuleList *create_module_list(void) { g_mods.count = 0; return &g_mods; }
bool process_imports(ASTNode *p, Environment *e, ModuleList *m, const char *f) { (void)p; (void)e; (void)m; (void)f; g_imp_called = 1; if (!o_parse) g_order_violation = 1; return o_imp; }
bool type_check(ASTNode *p, Environment *e) { (void)p; (void)e; g_tc_called = 1; if (!o_imp) g_order_violation = 1; return o_tc; }
bool type_check_module(ASTNode *p, Environment *e) { (void)p; (void)e; g_tc_called = 1; return o_tc; }
bool run_shadow_tests(ASTNode *p, Environment *e, bool v) { (void)p; (void)e; (void)v; g_shadow_called = 1; if (!o_tc) g_order_violation = 1; return o_shadow; }
#define FRONT_ALL_OK (g_tok_called && o_tok && o_parse && o_imp && o_tc && o_shadow && g_shadow_called)
char *transpile_to_c(ASTNode *p, Environment *e, const char *f) { (void)p; (void)e; (void)f; g_transpile_called = 1;
    __CPROVER_assert(FRONT_ALL_OK, "transpilation runs only after lexing, parsing, imports, type check and shadow tests all succeeded");
    __CPROVER_assert(0, "WITNESS: accepted");
    __CPROVER_assume(0);   /* the back half of the driver (cc command line, temp files) is not explored further */
    return NULL; }
int system(const char *c) { (void)c; g_system_called = 1;
#if TOOL == 2
    __CPROVER_assert(FRONT_ALL_OK, "no command is run before every front-end phase succeeded");
#endif
    return nondet_int(); }
FILE *fopen(const char *path, const char *mode) { (void)path; if (mode[0] == 'w' || mode[0] == 'a') { g_write_open = 1;
#if TOOL == 2
        __CPROVER_assert(FRONT_ALL_OK || !g_tok_called, "no file is opened for writing before every front-end phase succeeded");
#endif
    } static int dummy; return (nondet_int() & 1) ? (FILE *)&dummy : NULL; }
int fclose(FILE *f) { (void)f; return 0; }
size_t fread(void *p, size_t s, size_t n, FILE *f) { (void)p; (void)s; (void)f; return n ? 1 : 0; }
long ftell(FILE *f) { (void)f; return 1; }
int fseek(FILE *f, long o, int w) { (void)f; (void)o; (void)w; return 0; }
int fprintf(FILE *f, const char *fmt, ...) { (void)f; (void)fmt; return 0; }
int printf(const char *fmt, ...) { (void)fmt; return 0; }
int snprintf(char *s, size_t n, const char *f, ...) { (void)f; if (n) s[0] = 0; return 0; }
size_t fwrite(const void *p, size_t s, size_t n, FILE *f) { (void)p; (void)s; (void)f; return n; }
#include "nanovm/vm.h"
#include "nanoisa/verifier.h"
#if TOOL == 1 || TOOL == 3
VmResult vm_execute(VmState *vm) { (void)vm; g_exec_called = 1; return (VmResult)o_vmresult; }
NanoValue vm_get_result(VmState *vm) { (void)vm; static const NanoValue Z; NanoValue v = Z; v.tag = o_tag; v.as.i64 = o_i64; return v; }
void vm_init(VmState *vm, const NvmModule *m) { vm->module = m; vm->error_msg[0] = 0; vm->cop_pid = -1; }
NvmVerifyResult nvm_verify(const NvmModule *m) { (void)m; NvmVerifyResult r; r.ok = o_verify_ok; r.error_msg[0] = 0; return r; }
#endif
#if TOOL == 3
static NvmModule g_loaded;
NvmModule *nvm_deserialize(const uint8_t *d, uint32_t n) { (void)d; (void)n; g_loaded.import_count = 0; return (nondet_int() & 1) ? &g_loaded : NULL; }
void *malloc(size_t n) { static char pool[64]; (void)n; return pool; }
#endif
#if TOOL == 1
CodegenResult codegen_compile(ASTNode *p, Environment *e, ModuleList *m, const char *f) {
    (void)p; (void)e; (void)m; (void)f; g_codegen_called = 1; if (!o_tc) g_order_violation = 1;
    static NvmModule mod; CodegenResult r; memset(&r, 0, sizeof r); r.ok = o_codegen; r.module = o_codegen ? &mod : NULL; return r;
}
uint8_t *nvm_serialize(const NvmModule *m, uint32_t *sz) { (void)m; g_serialize_called = 1; static uint8_t b[4]; *sz = 4; return (nondet_int() & 1) ? b : NULL; }
bool wrapper_generate(const NvmModule *m, const uint8_t *b, uint32_t s, const char *o, const char *i, const ASTNode *pr, bool v) { (void)m; (void)b; (void)s; (void)o; (void)i; (void)pr; (void)v; g_wrapper_called = 1; return nondet_int() & 1; }
bool wrapper_generate_daemon(const uint8_t *b, uint32_t s, const char *o, bool v) { (void)b; (void)s; (void)o; (void)v; g_wrapper_called = 1; return nondet_int() & 1; }
#endif

void harness(void) {
    o_tok = nondet_int() & 1; o_parse = nondet_int() & 1; o_imp = nondet_int() & 1; o_tc = nondet_int() & 1;
    o_shadow = nondet_int() & 1; o_transpile = nondet_int() & 1; o_codegen = nondet_int() & 1;
    int rc;
    o_vmresult = nondet_int() & 15; o_verify_ok = nondet_int() & 1; o_tag = (unsigned char)nondet_int(); o_i64 = (long long)nondet_int() * 65536 + nondet_int();
    const int ref_status = (o_vmresult != VM_OK) ? 1 : (o_tag == TAG_INT ? (int)o_i64 : 0);
#if TOOL == 3
    rc = run_standalone("p.nvm");
    if (g_exec_called) {
        __CPROVER_assert(o_verify_ok, "nano_vm executes only a verified module");
        __CPROVER_assert(rc == ref_status, "C10: nano_vm's exit status is main's int result (1 on a run-time error), like nano_virt --run and the wrapper");
        __CPROVER_assert(0, "WITNESS: accepted");
    } else { __CPROVER_assert(rc != 0, "nano_vm fails when the module cannot be loaded/verified"); __CPROVER_assert(0, "WITNESS: rejected"); }
    return;
#endif
#if TOOL != 3
#if TOOL == 1
    static char a0[] = "nano_virt", a1[] = "in.nano", a_o[] = "-o", a_out[] = "out.bin", a_nvm[] = "out.nvm", a_run[] = "--run", a_emit[] = "--emit-nvm";
#if ARGS == 0
    char *argv[] = { a0, a1, a_run, NULL }; rc = nano_virt_main(3, argv);
#elif ARGS == 1
    char *argv[] = { a0, a1, a_emit, a_o, a_nvm, NULL }; rc = nano_virt_main(5, argv);
#elif ARGS == 2
    char *argv[] = { a0, a1, a_o, a_out, NULL }; rc = nano_virt_main(4, argv);
#else
    char *argv[] = { a0, a1, a_o, a_nvm, a_run, NULL }; rc = nano_virt_main(5, argv);
#endif
    int front_ok = g_tok_called && o_tok && o_parse && o_imp && o_tc;
#else
    static CompilerOptions opts;     /* all flags off; the symbolic flag below toggles -S / keep-c / verbose */
    opts.save_asm = nondet_int() & 1; opts.keep_c = nondet_int() & 1; opts.verbose = nondet_int() & 1;
    rc = compile_file("in.nano", "out.bin", &opts);
    int front_ok = g_tok_called && o_tok && o_parse && o_imp && o_tc && o_shadow;
#endif
    __CPROVER_assert(!g_order_violation, "phases run in order: no phase runs after an earlier one failed");
    if (!front_ok) {
        __CPROVER_assert(rc != 0, "a failed front-end phase (lexer/parser/imports/type check/shadow tests) gives a non-zero exit status");
        __CPROVER_assert(!LATER_RAN(), "after a failed front-end phase nothing is generated, written, compiled or executed");
        __CPROVER_assert(0, "WITNESS: rejected");
    } else {
#if TOOL == 1
        __CPROVER_assert(g_codegen_called, "an accepted program reaches code generation");
        if (g_exec_called) {
            __CPROVER_assert(o_verify_ok, "nano_virt --run executes only a verified module");
            __CPROVER_assert(rc == ref_status, "C10: nano_virt --run's exit status is main's int result (1 on a run-time error)");
        }
#else
        __CPROVER_assert(0, "an accepted program whose shadow tests pass reaches transpilation (the driver returned without it)");
#endif
        __CPROVER_assert(0, "WITNESS: accepted");
    }
#endif
}
