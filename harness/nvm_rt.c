/* C10 / C12: module built through the real nvm_add_* API with a concrete shape (NSTR strings of
 * lengths SLEN0..2, NFUNC functions, NCODE code bytes, NDBG debug entries, NIMP imports with IPC0/IPC1
 * parameters) and SYMBOLIC contents.  MODE 0: deserialize(serialize(m)) == m field by field and
 * serialize is idempotent.  MODE 1: every proper prefix of the file is refused.  MODE 2: the file with
 * 1..TAILMAX appended bytes is refused.  MODE 3: the writer stores crc(body) and a wrong stored checksum /
 * magic / version is refused. */
#include "nvm_common.h"
int verif_abort_flag;
#ifndef TAILMAX
#define TAILMAX 4
#endif
#define MAXI 4
#define MAXB 8

static NvmModule *build(void) {
    NvmModule *m = nvm_module_new();
    ASSUME(m != NULL);
    ND(uint32_t, in_flags); ND(uint32_t, in_entry);
    m->header.flags = in_flags; m->header.entry_point = in_entry;
#if NSTR > 0
    { ND_ARR(uint8_t, in_s0, SLEN0 + 1); nvm_add_string(m, (const char *)in_s0, SLEN0); }
#endif
#if NSTR > 1
#ifdef DUP01   /* second string is a byte-for-byte copy of the first: exercises de-duplication on insert and on reload */
    { ND_ARR(uint8_t, in_s0, SLEN0 + 1); nvm_add_string(m, (const char *)in_s0, SLEN0); }
#else
    { ND_ARR(uint8_t, in_s1, SLEN1 + 1); nvm_add_string(m, (const char *)in_s1, SLEN1); }
#endif
#endif
#if NSTR > 2
    { ND_ARR(uint8_t, in_s2, SLEN2 + 1); nvm_add_string(m, (const char *)in_s2, SLEN2); }
#endif
#if NCODE > 0
    { ND_ARR(uint8_t, in_code, NCODE); nvm_append_code(m, in_code, NCODE); }
#endif
#if NFUNC > 0
    { ND_ARR(uint32_t, in_f0, 3); ND_ARR(uint16_t, in_g0, 3);
      NvmFunctionEntry f; f.name_idx = in_f0[0]; f.code_offset = in_f0[1]; f.code_length = in_f0[2];
      f.arity = in_g0[0]; f.local_count = in_g0[1]; f.upvalue_count = in_g0[2]; nvm_add_function(m, &f); }
#endif
#if NFUNC > 1
    { ND_ARR(uint32_t, in_f1, 3); ND_ARR(uint16_t, in_g1, 3);
      NvmFunctionEntry f; f.name_idx = in_f1[0]; f.code_offset = in_f1[1]; f.code_length = in_f1[2];
      f.arity = in_g1[0]; f.local_count = in_g1[1]; f.upvalue_count = in_g1[2]; nvm_add_function(m, &f); }
#endif
#if NDBG > 0
    { ND_ARR(uint32_t, in_d0, 2); nvm_add_debug_entry(m, in_d0[0], in_d0[1]); }
#endif
#if NDBG > 1
    { ND_ARR(uint32_t, in_d1, 2); nvm_add_debug_entry(m, in_d1[0], in_d1[1]); }
#endif
#if NIMP > 0
    { ND_ARR(uint32_t, in_i0, 2); ND(uint8_t, in_r0); ND_ARR(uint8_t, in_p0, IPC0 + 1);
      nvm_add_import(m, in_i0[0], in_i0[1], IPC0, in_r0, in_p0); }
#endif
#if NIMP > 1
    { ND_ARR(uint32_t, in_i1, 2); ND(uint8_t, in_r1); ND_ARR(uint8_t, in_p1, IPC1 + 1);
      nvm_add_import(m, in_i1[0], in_i1[1], IPC1, in_r1, in_p1); }
#endif
    return m;
}

void harness(void) {
    NvmModule *m = build();
    uint32_t size = 0;
    uint8_t *buf = nvm_serialize(m, &size);
    CHECK(buf != NULL && size >= 32, "serialize succeeds on an API-built module");
    CHECK(size <= FILEMAX, "file size within the instance bound");
#if MODE == 0
    NvmModule *m2 = nvm_deserialize(buf, size);
    CHECK(m2 != NULL, "deserialize(serialize(m)) succeeds");
    if (m2) {
        CHECK(module_equal(m, m2, MAXI, MAXB), "deserialize(serialize(m)) == m field by field");
        uint32_t size2 = 0;
        uint8_t *buf2 = nvm_serialize(m2, &size2);
        CHECK(buf2 != NULL && size2 == size, "serialize idempotent: same size");
        if (buf2 && size2 == size)
            for (uint32_t i = 0; i < FILEMAX; i++) if (i < size) CHECK(buf2[i] == buf[i], "serialize idempotent: same bytes");
        WITNESS("roundtrip done");
    }
#elif MODE == 1
    ND(uint32_t, in_k); ASSUME(in_k < size);
    FIX_CRC(buf, in_k);
    NvmModule *m2 = nvm_deserialize(buf, in_k);
    CHECK(m2 == NULL, "truncated file refused (whatever the checksum)");
    WITNESS("truncation done");
#elif MODE == 2
    ND(uint32_t, in_t); ASSUME(in_t >= 1 && in_t <= TAILMAX);
    ND_ARR(uint8_t, in_tail, TAILMAX);
    uint8_t ext[FILEMAX + TAILMAX];
    for (uint32_t i = 0; i < FILEMAX + TAILMAX; i++) ext[i] = (i < size) ? buf[i] : ((i - size) < TAILMAX ? in_tail[(i - size) % TAILMAX] : 0);
    FIX_CRC(ext, size + in_t);
    NvmModule *m2 = nvm_deserialize(ext, size + in_t);
    CHECK(m2 == NULL, "file with appended tail refused (whatever the checksum)");
    WITNESS("extension done");
#elif MODE == 3
    /* abstract CRC: the writer must have called it exactly on the bytes after the header and stored the result */
    uint32_t stored = (uint32_t)buf[28] | ((uint32_t)buf[29] << 8) | ((uint32_t)buf[30] << 16) | ((uint32_t)buf[31] << 24);
#ifndef REPLAY
    CHECK(crc_calls == 1 && crc_log[0].n == size - 32 && stored == crc_log[0].v, "writer stores crc32 of everything after the header");
    for (uint32_t i = 0; i < FILEMAX; i++) if (i + 32 < size) CHECK(crc_log[0].b[i] == buf[32 + i], "checksum computed over the final body bytes");
#else
    CHECK(stored == nvm_crc32(buf + 32, size - 32), "writer stores crc32 of everything after the header");
#endif
    CHECK(buf[0] == 'N' && buf[1] == 'V' && buf[2] == 'M' && buf[3] == 1 && buf[4] == 1 && buf[5] == 0 && buf[6] == 0 && buf[7] == 0,
          "writer emits magic and version 1");
    ND(uint32_t, in_pos); ND(uint8_t, in_xor);
    ASSUME(in_xor != 0);
    /* magic, version or stored checksum; written as constant-index updates so that the other header
     * fields (section count!) stay constants for the solver */
    switch (in_pos) {
    case 0: buf[0] ^= in_xor; break; case 1: buf[1] ^= in_xor; break; case 2: buf[2] ^= in_xor; break; case 3: buf[3] ^= in_xor; break;
    case 4: buf[4] ^= in_xor; break; case 5: buf[5] ^= in_xor; break; case 6: buf[6] ^= in_xor; break; case 7: buf[7] ^= in_xor; break;
    case 28: buf[28] ^= in_xor; break; case 29: buf[29] ^= in_xor; break; case 30: buf[30] ^= in_xor; break; case 31: buf[31] ^= in_xor; break;
    default: ASSUME(0);
    }
    CHECK(nvm_deserialize(buf, size) == NULL, "wrong magic / version / stored checksum refused");
    WITNESS("header damage done");
#elif MODE == 4
    /* C19: the file is a function of the module's semantic content only: stale / bookkeeping fields (stored checksum,
     * cached pool offsets, section table, counts of a previous load) have no influence on the bytes written */
    ND(uint32_t, in_j0); ND(uint32_t, in_j1); ND(uint32_t, in_j2); ND(uint32_t, in_j3); ND_ARR(uint32_t, in_sec, 6);
    m->header.checksum = in_j0; m->header.string_pool_offset = in_j1; m->header.string_pool_length = in_j2; m->header.section_count = in_j3;
    m->section_count = in_j3;
    for (int i = 0; i < 2; i++) { m->sections[i].type = in_sec[3 * i]; m->sections[i].offset = in_sec[3 * i + 1]; m->sections[i].size = in_sec[3 * i + 2]; }
    uint32_t size2 = 0;
    uint8_t *buf2 = nvm_serialize(m, &size2);
    CHECK(buf2 != NULL && size2 == size, "same module content => same file size");
    if (buf2 && size2 == size) for (uint32_t i = 0; i < FILEMAX; i++) if (i < size) CHECK(buf2[i] == buf[i], "same module content => byte-identical file (no dependence on stale bookkeeping fields or memory contents)");
    WITNESS("determinism done");
#endif
}
