/* C20 (generated runtime text): the string-builder helpers that nanoc emits into EVERY generated C file
 * (stdlib_runtime.c generate_string_operations: nl_fmt_sb_ensure / append_cstr / append_char), taken from the C the
 * real nanoc generated for a family member.  One operation from ANY valid builder state (capacity CAP, symbolic
 * length 0..CAP-1, symbolic contents), appended text of symbolic length 0..SMAX: memory-safe (the terminator fits),
 * invariant len < cap preserved, result = old contents ++ appended text. */
#include "verif.h"
#include <stdlib.h>
int verif_abort_flag;
#ifndef REPLAY
#include <stdio.h>
int printf(const char *f, ...) { (void)f; return 0; }
int fprintf(FILE *o, const char *f, ...) { (void)o; (void)f; return 0; }
#endif
#define main nl_genc_main
#include GENC_FILE
#undef main
#ifndef CAP
#define CAP 8
#endif
#ifndef SMAX
#define SMAX 10
#endif
void harness(void) {
    ND(uint32_t, in_len); ND(uint32_t, in_slen); ND_ARR(uint8_t, in_old, CAP); ND_ARR(uint8_t, in_s, SMAX + 1); ND(uint8_t, in_c);
    ASSUME(in_len < CAP && in_slen <= SMAX);
    nl_fmt_sb_t sb; sb.cap = CAP; sb.len = in_len; sb.buf = malloc(CAP); ASSUME(sb.buf != NULL);
    for (uint32_t i = 0; i < CAP; i++) sb.buf[i] = (i < in_len) ? (char)(in_old[i] | 1) : 0;
    char s[SMAX + 1];
    for (uint32_t i = 0; i < SMAX + 1; i++) s[i] = (i < in_slen) ? (char)(in_s[i] | 1) : 0;
#if OPK == 0
    nl_fmt_sb_append_cstr(&sb, s);
    const uint32_t n = in_slen;
#else
    nl_fmt_sb_append_char(&sb, (char)(in_c | 1));
    const uint32_t n = 1;
#endif
    CHECK(sb.buf != NULL && sb.len == in_len + n, "append adds exactly the appended text");
    CHECK(sb.len < sb.cap, "Inv: the terminator fits (len < cap) after an append");
    CHECK(sb.buf[sb.len] == 0, "the builder stays NUL-terminated");
    for (uint32_t i = 0; i < CAP; i++) if (i < in_len) CHECK(sb.buf[i] == (char)(in_old[i] | 1), "old contents preserved");
#if OPK == 0
    for (uint32_t i = 0; i < SMAX; i++) if (i < n) CHECK(sb.buf[in_len + i] == s[i], "appended text copied");
#endif
    WITNESS("append done");
}
