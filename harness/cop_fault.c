/* C16 (and the request clause of C15): the VM side of the co-process protocol (vm_ffi.c: vm_ffi_call_cop,
 * cop_ensure, cop_is_alive, vm_ffi_cop_start, vm_ffi_cop_stop; cop_protocol.c: cop_send, cop_recv_header,
 * cop_recv_payload, read_all, write_all, codec) under an ARBITRARY peer: every read()/write()/waitpid()/
 * fork()/pipe() result is symbolic within the POSIX contract (errors, EOF, short counts, arbitrary bytes), i.e.
 * the fault schedule is a solver variable.  NCALLS external calls are made, then the VM's shutdown path runs.
 * Ghost state: open fds, SIGPIPE disposition, child process life cycle. */
#include "verif.h"
#include <stdlib.h>
#include <stdbool.h>
#include <errno.h>
#include <signal.h>
#include <unistd.h>
#include <sys/types.h>
#include <sys/wait.h>
int verif_abort_flag;

#ifndef NCALLS
#define NCALLS 1
#endif
#define MAXFD 24
static int g_fd_open[MAXFD];
static int g_next_fd = 5;
static int g_bad_close, g_io_on_closed;
static int g_sigpipe_ign;
static int g_sigpipe_would_kill;
static int g_child_exists, g_child_exited, g_child_reaped, g_child_signalled, g_hang, g_forks, g_orphans;
static int g_partial_budget = 2, g_eintr_budget = 1;
static int g_req_headers, g_io_faults;

int nondet_int(void); unsigned nondet_uint(void); size_t nondet_size(void); unsigned char nondet_uchar(void);

#ifndef REPLAY
typedef void (*sighandler_t)(int);
sighandler_t signal(int sig, sighandler_t h) { if (sig == SIGPIPE) g_sigpipe_ign = (h == SIG_IGN); return SIG_DFL; }
int usleep(unsigned us) { (void)us; return 0; }
int pipe(int fds[2]) {
    if (nondet_int() & 1) { g_io_faults++; errno = EMFILE; return -1; }
    __CPROVER_assume(g_next_fd + 2 <= MAXFD);
    fds[0] = g_next_fd++; fds[1] = g_next_fd++; g_fd_open[fds[0]] = 1; g_fd_open[fds[1]] = 1; return 0;
}
int close(int fd) {
    if (fd < 0 || fd >= MAXFD || !g_fd_open[fd]) { g_bad_close = 1; errno = EBADF; return -1; }
    g_fd_open[fd] = 0; return 0;
}
pid_t fork(void) {
    if (nondet_int() & 1) { g_io_faults++; errno = EAGAIN; return -1; }
    if (g_child_exists && !g_child_reaped) g_orphans++;      /* previous child never reaped */
    g_child_exists = 1; g_child_exited = 0; g_child_reaped = 0; g_child_signalled = 0; g_forks++;
    return 1000 + g_forks;                                    /* parent side only: the child side is the peer */
}
int kill(pid_t p, int sig) { (void)p; (void)sig; if (g_child_exists && !g_child_reaped) g_child_signalled = 1; return 0; }
pid_t waitpid(pid_t p, int *st, int fl) {
    if (!g_child_exists || g_child_reaped) { errno = ECHILD; return -1; }
    if (!g_child_exited && (nondet_int() & 1)) g_child_exited = 1;      /* the peer may exit at any time */
    if (fl & WNOHANG) {
        if (g_child_exited || (g_child_signalled && (nondet_int() & 1))) { g_child_reaped = 1; if (st) *st = nondet_int(); return p; }
        return 0;
    }
    if (!g_child_exited && !g_child_signalled) g_hang = 1;             /* would block for ever on a live, unsignalled child */
    g_child_reaped = 1; if (st) *st = nondet_int(); return p;
}
ssize_t read(int fd, void *buf, size_t n) {
    if (fd < 0 || fd >= MAXFD || !g_fd_open[fd]) { g_io_on_closed = 1; errno = EBADF; return -1; }
    __CPROVER_assert(__CPROVER_w_ok(buf, n), "read(): destination buffer holds the requested byte count");
    int k = nondet_int();
    if (k == 0) { g_io_faults++; return 0; }                            /* EOF */
    if (k == 1) { g_io_faults++; errno = EIO; return -1; }
    if (k == 2 && g_eintr_budget > 0) { g_eintr_budget--; errno = EINTR; return -1; }
    size_t r = n;
    if (k == 3 && g_partial_budget > 0 && n > 1) { g_partial_budget--; r = nondet_size(); __CPROVER_assume(r >= 1 && r < n); }
    if (n > 0) __CPROVER_havoc_slice(buf, r);                           /* arbitrary bytes from the peer */
    return (ssize_t)r;
}
ssize_t write(int fd, const void *buf, size_t n) {
    if (fd < 0 || fd >= MAXFD || !g_fd_open[fd]) { g_io_on_closed = 1; errno = EBADF; return -1; }
    __CPROVER_assert(__CPROVER_r_ok(buf, n), "write(): source buffer holds the byte count");
    int k = nondet_int();
    if (k == 1) { g_io_faults++; if (!g_sigpipe_ign) g_sigpipe_would_kill = 1; errno = EPIPE; return -1; }   /* peer gone */
    if (n == 8 && ((const unsigned char *)buf)[1] == 0x02) g_req_headers++;     /* COP_MSG_FFI_REQ header goes out */
    if (k == 2 && g_eintr_budget > 0) { g_eintr_budget--; errno = EINTR; return -1; }
    if (k == 3 && g_partial_budget > 0 && n > 1) { g_partial_budget--; size_t r = nondet_size(); __CPROVER_assume(r >= 1 && r < n); return (ssize_t)r; }
    return (ssize_t)n;
}
int dup2(int a, int b) { (void)a; return b; }
int execlp(const char *f, const char *a, ...) { (void)f; (void)a; return -1; }
int execl(const char *f, const char *a, ...) { (void)f; (void)a; return -1; }
void _exit(int c) { (void)c; __CPROVER_assume(0); }
#include <stdio.h>
int snprintf(char *s, size_t n, const char *f, ...) { (void)f; if (n) s[0] = 0; return 0; }
int fprintf(FILE *f, const char *fmt, ...) { (void)f; (void)fmt; return 0; }
#endif

#include "vm_ffi.c"
#include "cop_protocol.c"

#ifndef REPLAY
uint8_t *nvm_serialize(const NvmModule *m, uint32_t *sz) { (void)m; uint8_t *b = malloc(4); __CPROVER_assume(b != 0); *sz = 4; return b; }
#endif

static VmState vm;
static NvmModule mod;
static VmString *intern[8];

void harness(void) {
    vm.module = &mod; vm.cop_pid = -1; vm.cop_in_fd = -1; vm.cop_out_fd = -1; vm.isolate_ffi = true;
    vm.heap.intern_table = intern; vm.heap.intern_capacity = 8;
    static const NanoValue Z;
    for (int c = 0; c < NCALLS; c++) {
        NanoValue args[2]; args[0] = Z; args[1] = Z;
        ND(int64_t, in_arg); ND(uint32_t, in_import);
        args[0].tag = TAG_INT; args[0].as.i64 = in_arg;
#ifdef BIG_STRING_ARG
        /* C15: a transferable argument of any length must reach the wire */
        const uint32_t in_len = BIG_LEN;
        VmString *s = malloc(sizeof(VmString) + (size_t)in_len + 1); ASSUME(s != NULL);
        s->header.ref_count = 1; s->header.obj_type = TAG_STRING; s->length = in_len; s->hash = 0;
        args[1].tag = TAG_STRING; args[1].as.string = s;
#endif
        NanoValue result = Z;
        char err[256];
        int before = g_forks;
        bool ok = vm_ffi_call_cop(&vm, &mod, in_import, args,
#ifdef BIG_STRING_ARG
                                  2,
#else
                                  1,
#endif
                                  &result, &vm.heap, err, sizeof err);
        (void)before;
        if (ok) WITNESS("call succeeded"); else WITNESS("call failed");
#ifdef BIG_STRING_ARG
        CHECK(ok || g_io_faults > 0 || g_req_headers > 0, "C15: a call with a long string argument is put on the wire (not refused locally)");
#endif
    }
    /* the VM's shutdown path (nano_vm main) */
    vm_ffi_cop_stop(&vm);
    CHECK(!g_sigpipe_would_kill, "a write to a vanished co-process never raises a fatal SIGPIPE");
    CHECK(!g_bad_close, "no file descriptor is closed twice / closed when not open");
    CHECK(!g_io_on_closed, "no read/write on a closed descriptor");
    CHECK(!g_hang, "shutdown never blocks for ever on a live co-process that was not signalled");
    CHECK(!(g_child_exists && !g_child_reaped), "after the VM's shutdown path no co-process remains un-reaped");
    CHECK(g_orphans == 0, "a co-process is reaped before another one is started");
    for (int f = 0; f < MAXFD; f++) CHECK(!g_fd_open[f], "every pipe descriptor is closed by the end");
    WITNESS("shutdown done");
}
