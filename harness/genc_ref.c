/* Native side of the C03 builtin kernels: the runtime helpers exactly as the real nanoc wrote them into a generated C
 * file (GENC_FILE), exported under ref_* names.  Separate TU: the generated C defines its own runtime types. */
#include <stdint.h>
#include <stdbool.h>
#ifndef REPLAY
#include <stdio.h>
int printf(const char *f, ...) { (void)f; return 0; }
int fprintf(FILE *o, const char *f, ...) { (void)o; (void)f; return 0; }
#endif
#define main nl_genc_main
#include GENC_FILE
#undef main
int64_t ref_char_at(const char *s, int64_t i) { return char_at(s, i); }
bool ref_is_digit(int64_t c) { return is_digit(c); }
bool ref_is_alpha(int64_t c) { return is_alpha(c); }
bool ref_is_alnum(int64_t c) { return is_alnum(c); }
bool ref_is_whitespace(int64_t c) { return is_whitespace(c); }
bool ref_is_upper(int64_t c) { return is_upper(c); }
bool ref_is_lower(int64_t c) { return is_lower(c); }
int64_t ref_digit_value(int64_t c) { return digit_value(c); }
int64_t ref_char_to_lower(int64_t c) { return char_to_lower(c); }
int64_t ref_char_to_upper(int64_t c) { return char_to_upper(c); }
int64_t ref_abs(int64_t a) { return nl_abs(a); }
int64_t ref_min(int64_t a, int64_t b) { return nl_min(a, b); }
int64_t ref_max(int64_t a, int64_t b) { return nl_max(a, b); }
bool ref_str_equals(const char *a, const char *b) { return nl_str_equals(a, b); }
bool ref_str_contains(const char *a, const char *b) { return nl_str_contains(a, b); }
int64_t ref_str_length(const char *a) { return (int64_t)strlen(a); }      /* the transpiler emits strlen(s) inline for str_length */
