/* C11: isa_encode / isa_decode are exact inverses, for one concrete opcode byte (OPC) and
 * all operand payloads / buffer contents / buffer lengths.  IS_OPCODE says whether isa.h's
 * NanoOpcode enum defines the byte (read from the header by the generator). */
#include "verif.h"
#include "isa.h"
int verif_abort_flag;

static uint32_t ref_size(OperandType t) {   /* independent size oracle: isa.h comments */
    switch (t) {
    case OPERAND_NONE: return 0; case OPERAND_U8: return 1; case OPERAND_U16: return 2;
    case OPERAND_U32: return 4; case OPERAND_I32: return 4; case OPERAND_I64: return 8;
    case OPERAND_F64: return 8; }
    return 0;
}
static uint64_t mask_of(uint32_t sz) { return sz >= 8 ? ~0ULL : ((1ULL << (8 * sz)) - 1); }

#define CAP 40
void harness(void) {
    const uint8_t opc = OPC;
    const InstructionInfo *info = isa_get_info(opc);
#if IS_OPCODE
    CHECK(info != NULL, "defined opcode has table entry");
    CHECK(info->operand_count <= MAX_OPERANDS, "operand count within MAX_OPERANDS");
#else
    CHECK(info == NULL, "undefined opcode byte has no table entry");
#endif
    uint32_t L = 1;
    if (info) for (int i = 0; i < info->operand_count && i < MAX_OPERANDS; i++) L += ref_size(info->operands[i]);

#if DIRECTION == 0
    /* ---- encode then decode ---- */
    ND(uint32_t, in_buf_size); ASSUME(in_buf_size <= 32);
    ND_ARR(uint64_t, in_ops, 4);
    ND_ARR(uint8_t, in_fill, CAP);
    ND(uint8_t, in_junk_count);
    uint8_t buf[CAP];
    for (int i = 0; i < CAP; i++) buf[i] = in_fill[i];
    DecodedInstruction ins;
    memset(&ins, 0, sizeof ins);
    ins.opcode = opc;
    ins.operand_count = in_junk_count;            /* encoder must go by the table, not by this */
    for (int i = 0; i < 4; i++) ins.operands[i].i64 = (int64_t)in_ops[i];
    uint32_t n = isa_encode(&ins, buf, in_buf_size);
    for (int i = 0; i < CAP; i++)
        if ((uint32_t)i >= in_buf_size || n == 0 || (uint32_t)i >= n)
            CHECK(buf[i] == in_fill[i], "encode leaves bytes beyond the instruction / beyond buf_size / on failure untouched");
    if (!info) { CHECK(n == 0, "encode refuses undefined opcode"); WITNESS("undefined opcode refused"); return; }
    if (in_buf_size < L) { CHECK(n == 0, "encode refuses short buffer"); WITNESS("short buffer refused"); return; }
    CHECK(n == L, "encode length = 1 + operand sizes");
    CHECK(buf[0] == opc, "opcode byte first");
    DecodedInstruction out;
    uint32_t m = isa_decode(buf, in_buf_size, &out);
    CHECK(m == L, "decode consumes what encode wrote");
    CHECK(out.opcode == opc && out.byte_length == L && out.operand_count == info->operand_count, "decoded header fields");
    for (int i = 0; i < info->operand_count && i < MAX_OPERANDS; i++) {
        CHECK(out.operand_types[i] == info->operands[i], "decoded operand type");
        CHECK(((uint64_t)out.operands[i].i64) == (in_ops[i] & mask_of(ref_size(info->operands[i]))),
              "decode(encode(i)) operand payload bit-identical");
    }
    ND(uint32_t, in_trunc); ASSUME(in_trunc < L);
    DecodedInstruction out2;
    CHECK(isa_decode(buf, in_trunc, &out2) == 0, "truncated instruction refused");
    WITNESS("roundtrip done");
#else
    /* ---- decode arbitrary bytes then encode ---- */
    ND(uint32_t, in_len); ASSUME(in_len <= 32);
    ND_ARR(uint8_t, in_bytes, CAP);
    uint8_t b[CAP], b2[CAP];
    for (int i = 0; i < CAP; i++) { b[i] = in_bytes[i]; b2[i] = 0xA5; }
    b[0] = opc;
    DecodedInstruction out;
    uint32_t m = isa_decode(b, in_len, &out);
    if (!info) { CHECK(m == 0, "decode refuses undefined opcode"); WITNESS("undefined refused"); return; }
    if (in_len < L) { CHECK(m == 0, "decode refuses truncated instruction"); WITNESS("truncated refused"); return; }
    CHECK(m == L, "decode length = 1 + operand sizes");
    uint32_t n = isa_encode(&out, b2, 32);
    CHECK(n == m, "re-encode length");
    for (int i = 0; i < CAP; i++) if ((uint32_t)i < m) CHECK(b2[i] == b[i], "encode(decode(b)) == b");
    WITNESS("decode-encode done");
#endif
}
