/* C19: isa_encode is a function of (opcode, table-selected operand values) only: two DecodedInstruction objects
 * that agree on those and differ arbitrarily everywhere else (unused union bytes, operand_count, operand_types,
 * byte_length, unused operand slots, padding) encode to identical bytes.  No clock/env/pid function is reachable. */
#include "verif.h"
#include "isa.h"
int verif_abort_flag;
static int g_env_called;
#ifndef REPLAY
char *getenv(const char *n) { (void)n; g_env_called = 1; return 0; }
long time(long *t) { (void)t; g_env_called = 1; return 0; }
int getpid(void) { g_env_called = 1; return 1; }
int rand(void) { g_env_called = 1; return 0; }
#endif
static uint32_t ref_size(OperandType t) { switch (t) { case OPERAND_U8: return 1; case OPERAND_U16: return 2; case OPERAND_U32: case OPERAND_I32: return 4; case OPERAND_I64: case OPERAND_F64: return 8; default: return 0; } }
void harness(void) {
    const InstructionInfo *info = isa_get_info(OPC);
    if (!info) { WITNESS("undefined opcode"); return; }
    DecodedInstruction a, b;                  /* both fully unconstrained (uninitialised = arbitrary) */
    ND_ARR(uint64_t, in_a, 4); ND_ARR(uint64_t, in_b, 4);
    for (int i = 0; i < 4; i++) { a.operands[i].i64 = (int64_t)in_a[i]; b.operands[i].i64 = (int64_t)in_b[i]; }
    a.opcode = OPC; b.opcode = OPC;
    for (int i = 0; i < info->operand_count && i < MAX_OPERANDS; i++) {
        uint32_t sz = ref_size(info->operands[i]); uint64_t mask = sz >= 8 ? ~0ULL : ((1ULL << (8 * sz)) - 1);
        ASSUME((in_a[i] & mask) == (in_b[i] & mask));      /* same semantic operand value, other bytes differ freely */
    }
    uint8_t ba[32], bb[32];
    ND_ARR(uint8_t, in_fa, 32); ND_ARR(uint8_t, in_fb, 32);
    for (int i = 0; i < 32; i++) { ba[i] = in_fa[i]; bb[i] = in_fb[i]; }
    uint32_t na = isa_encode(&a, ba, 32), nb = isa_encode(&b, bb, 32);
    CHECK(na == nb && na > 0, "same instruction => same encoded length");
    for (int i = 0; i < 32; i++) if ((uint32_t)i < na) CHECK(ba[i] == bb[i], "same instruction => byte-identical encoding (independent of unused union bytes, padding, stale fields, buffer contents)");
    CHECK(!g_env_called, "encoding consults no clock / environment / pid / random source");
    WITNESS("determinism done");
}
