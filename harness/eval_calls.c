/* C03 (builtin kernel): eval.c's eval_call on (NAME <literal> ...) with symbolic literal values - the value the
 * compile-time evaluator (which runs every shadow test) computes for a builtin equals the value of the helper the
 * native backend calls for the same builtin (harness/genc_ref.c: the text the real nanoc generated), for ALL argument
 * values.  AST nodes are built with whole-struct compound literals (member-wise writes into the node union make the
 * node kind non-constant for symex: no verdict). */
#include "verif.h"
#include <stdlib.h>
#include <stdio.h>
static int ghost_exit_called;
#ifndef REPLAY
void exit(int c) { (void)c; ghost_exit_called = 1; __CPROVER_assume(0); }
int fprintf(FILE *f, const char *fmt, ...) { (void)f; (void)fmt; return 0; }
#endif
#include "eval.c"
int verif_abort_flag;
#ifndef REPLAY
static const Value VZ;
Value create_int(long long v) { Value r = VZ; r.type = VAL_INT; r.as.int_val = v; return r; }
Value create_bool(bool v) { Value r = VZ; r.type = VAL_BOOL; r.as.bool_val = v; return r; }
Value create_void(void) { Value r = VZ; r.type = VAL_VOID; return r; }
Value create_string(const char *s) { Value r = VZ; r.type = VAL_STRING; r.as.string_val = (char *)s; return r; }   /* no copy: ownership is not the subject */
Symbol *env_get_var(Environment *env, const char *name) { (void)env; (void)name; return 0; }                        /* no variable shadows the builtin */
Function *env_get_function(Environment *env, const char *name) { (void)env; (void)name; return 0; }
size_t strnlen(const char *s, size_t n) { size_t k = 0; while (k < n && s[k]) k++; return k; }
#endif
int64_t ref_char_at(const char *s, int64_t i); bool ref_is_digit(int64_t c); bool ref_is_alpha(int64_t c); bool ref_is_alnum(int64_t c);
bool ref_is_whitespace(int64_t c); bool ref_is_upper(int64_t c); bool ref_is_lower(int64_t c); int64_t ref_digit_value(int64_t c);
bool ref_str_equals(const char *a, const char *b); bool ref_str_contains(const char *a, const char *b); int64_t ref_str_length(const char *a);
int64_t ref_char_to_lower(int64_t c); int64_t ref_char_to_upper(int64_t c); int64_t ref_abs(int64_t a); int64_t ref_min(int64_t a, int64_t b); int64_t ref_max(int64_t a, int64_t b);
#ifndef SL
#define SL 3
#endif
static char in_tbuf[SL + 1];
static ASTNode na, nb, ncall; static ASTNode *argv2[2]; static Environment env; static char in_sbuf[SL + 1];
static uint8_t in_str[SL];   /* copy of the string bytes that shows up in the trace */
void harness(void) {
    ND(int64_t, in_a); ND(int64_t, in_b); ND_ARR(uint8_t, in_s, SL);
    for (int i = 0; i < SL; i++) {
#if SIG == 3
        ASSUME(in_s[i] != 0);
#endif
        in_str[i] = in_s[i]; in_sbuf[i] = (char)in_s[i]; }
    in_sbuf[SL] = 0;
#if SIG == 1      /* (int) */
    na = (ASTNode){ .type = AST_NUMBER, .as.number = in_a };
#elif SIG == 2    /* (int int) */
    na = (ASTNode){ .type = AST_NUMBER, .as.number = in_a }; nb = (ASTNode){ .type = AST_NUMBER, .as.number = in_b };
#elif SIG == 4    /* (string string) -> bool, lengths 0..SL (a NUL may appear anywhere) */
    ND_ARR(uint8_t, in_t, SL);
    for (int i = 0; i < SL; i++) { in_tbuf[i] = (char)in_t[i]; }
    in_tbuf[SL] = 0;
    na = (ASTNode){ .type = AST_STRING, .as.string_val = in_sbuf }; nb = (ASTNode){ .type = AST_STRING, .as.string_val = in_tbuf };
#elif SIG == 5    /* (string) -> int */
    na = (ASTNode){ .type = AST_STRING, .as.string_val = in_sbuf };
#else             /* (string int) */
    na = (ASTNode){ .type = AST_STRING, .as.string_val = in_sbuf }; nb = (ASTNode){ .type = AST_NUMBER, .as.number = in_b };
    ASSUME(in_b >= 0 && in_b < SL);     /* in range: out of range is an error on both sides with different conventions (message + 0 / void) */
#endif
    argv2[0] = &na; argv2[1] = &nb;
    ncall = (ASTNode){ .type = AST_CALL, .as.call = { .name = CALLNAME, .args = argv2, .arg_count = ((SIG == 1 || SIG == 5) ? 1 : 2) } };
#if ABSLIKE
    ASSUME(in_a != INT64_MIN);          /* -INT64_MIN is undefined in both implementations */
#endif
    Value r = eval_call(&ncall, &env);
#if SIG == 1
  #if RBOOL
    CHECK(r.type == VAL_BOOL && r.as.bool_val == REF(in_a), "C03: the compile-time evaluator's builtin returns what the native helper returns");
  #else
    CHECK(r.type == VAL_INT && r.as.int_val == REF(in_a), "C03: the compile-time evaluator's builtin returns what the native helper returns");
  #endif
#elif SIG == 4
    CHECK(r.type == VAL_BOOL && r.as.bool_val == REF(in_sbuf, in_tbuf), "C03: the compile-time evaluator's builtin returns what the native helper returns");
#elif SIG == 5
    CHECK(r.type == VAL_INT && r.as.int_val == REF(in_sbuf), "C03: the compile-time evaluator's builtin returns what the native helper returns");
#elif SIG == 2
    CHECK(r.type == VAL_INT && r.as.int_val == REF(in_a, in_b), "C03: the compile-time evaluator's builtin returns what the native helper returns");
#else
    CHECK(r.type == VAL_INT && r.as.int_val == REF(in_sbuf, in_b), "C03: the compile-time evaluator's builtin returns what the native helper returns");
#endif
    WITNESS("evaluated");
}
