/* C08 (evaluator): eval.c's array builtins on a dynamic array of ALEN ints / a static Array, index any int64.
 * exit() is the evaluator's documented fault: ghost flag + end of path. */
#include "verif.h"
#include <stdlib.h>
#include <stdio.h>
static int ghost_exit_called;
#ifndef REPLAY
void exit(int c) { (void)c; ghost_exit_called = 1; __CPROVER_assume(0); }
int fprintf(FILE *f, const char *fmt, ...) { (void)f; (void)fmt; return 0; }
#endif
#include "eval.c"
int verif_abort_flag;
#ifndef REPLAY
/* env.c's scalar constructors, transcribed (linking env.c drags the whole symbol table in: no verdict) */
Value create_int(long long v) { Value r; memset(&r, 0, sizeof r); r.type = VAL_INT; r.as.int_val = v; return r; }
Value create_void(void) { Value r; memset(&r, 0, sizeof r); r.type = VAL_VOID; return r; }
#endif

#ifndef ALEN
#define ALEN 3
#endif
void harness(void) {
    ND(int64_t, in_index); ND_ARR(int64_t, in_vals, ALEN + 1); ND(int64_t, in_newval);
    Value args[3];
    memset(args, 0, sizeof args);
    const int in_range = (in_index >= 0 && in_index < ALEN);
#if STATIC_ARRAY
    Array arr; long long data[ALEN + 1];
    for (int i = 0; i < ALEN; i++) data[i] = in_vals[i];
    arr.element_type = VAL_INT; arr.length = ALEN; arr.capacity = ALEN + 1; arr.data = data;
    args[0].type = VAL_ARRAY; args[0].as.array_val = &arr;
#else
    DynArray arr; int64_t data[ALEN + 1];
    for (int i = 0; i < ALEN; i++) data[i] = in_vals[i];
    arr.length = ALEN; arr.capacity = ALEN + 1; arr.elem_type = ELEM_INT; arr.elem_size = 8; arr.data = data;
    args[0].type = VAL_DYN_ARRAY; args[0].as.dyn_array_val = &arr;
#endif
    args[1].type = VAL_INT; args[1].as.int_val = in_index;
    args[2].type = VAL_INT; args[2].as.int_val = in_newval;
#if OP == 1
    Value r = builtin_at(args);
    CHECK(in_range, "evaluator at() with an out-of-range index does not return a value");
    if (in_range) CHECK(r.type == VAL_INT && r.as.int_val == in_vals[in_index], "at() returns element i");
    WITNESS("at returned");
#elif OP == 2
    (void)builtin_array_set(args);
    CHECK(in_range, "evaluator array_set() with an out-of-range index does not return");
    for (int i = 0; i < ALEN; i++) CHECK(data[i] == (i == in_index ? in_newval : in_vals[i]), "array_set updates exactly element i");
    WITNESS("set returned");
#elif OP == 3
    Value r = builtin_array_pop(args);
    CHECK(ALEN > 0, "evaluator array_pop() on an empty array does not return a value");
#if ALEN > 0
    CHECK(r.type == VAL_INT && r.as.int_val == in_vals[ALEN - 1] && arr.length == ALEN - 1, "array_pop returns the last element");
#endif
    WITNESS("pop returned");
#elif OP == 4
    (void)builtin_array_remove_at(args);
    CHECK(in_range, "evaluator array_remove_at() with an out-of-range index does not return");
    WITNESS("remove returned");
#endif
}
