/* C13 (verifier): nvm_verify on a directly constructed module.  Concrete: instruction sequence of function 0
 * (opcode bytes at constant offsets P0.., sizes Z0..), number of functions.  Symbolic: every operand byte,
 * function-table fields (code_length, local/upvalue counts, name index; code_offset when SYM_OFFSET),
 * string/import/function counts' relation to the operands.  Asserts memory safety (CBMC), and the MEANING of
 * acceptance: ranges inside the code (64-bit arithmetic), each walked instruction complete inside its function,
 * checked operands in range. */
#include "verif.h"
#include <stdlib.h>
#include "verifier.h"
#include "isa.h"
int verif_abort_flag;
#ifndef REPLAY
#include <stdarg.h>
int vsnprintf(char *s, size_t n, const char *f, va_list ap) { (void)f; (void)ap; if (n) s[0] = 0; return 0; }
#endif
#ifndef CODE
#define CODE 16
#endif
#ifndef NFUNC
#define NFUNC 1
#endif
#ifndef SEQ_END
#define SEQ_END CODE
#endif
#define CK_NONE 0
#define CK_JMP 1      /* i32 at operand offset 1 */
#define CK_MATCH 2    /* i32 at operand offset 3 */
#define CK_FN 3       /* u32 index < function_count */
#define CK_STR 4
#define CK_IMP 5
#define CK_LOCAL 6    /* u16 < local_count */
#define CK_UPV 7
#define CK_UNDEF 8    /* undefined opcode byte: must be rejected when walked */
static uint32_t rd32(const uint8_t *p) { return (uint32_t)p[0] | ((uint32_t)p[1] << 8) | ((uint32_t)p[2] << 16) | ((uint32_t)p[3] << 24); }
static uint32_t rd16(const uint8_t *p) { return (uint32_t)p[0] | ((uint32_t)p[1] << 8); }

static uint8_t code[CODE];
static NvmFunctionEntry fns[2];
static char *strs[2]; static uint32_t slens[2]; static char s0[2] = "a", s1[2] = "b";
static NvmImportEntry imps[1]; static uint8_t *ipt[1];
static NvmModule mod;

static void check_instr(uint32_t p, uint32_t z, int ck, uint32_t len, const NvmFunctionEntry *f) {
    if (p >= len) return;                       /* not walked */
    CHECK(ck != CK_UNDEF, "a walked undefined opcode byte is rejected");
    CHECK((uint64_t)p + z <= len, "every walked instruction lies completely inside its function");
    if ((uint64_t)p + z > len) return;
    switch (ck) {
    case CK_JMP: { int64_t t = (int64_t)p + (int32_t)rd32(code + p + 1); CHECK(t >= 0 && t <= (int64_t)len, "accepted jump target inside the function"); break; }
    case CK_MATCH: { int64_t t = (int64_t)p + (int32_t)rd32(code + p + 3); CHECK(t >= 0 && t <= (int64_t)len, "accepted match_tag target inside the function"); break; }
    case CK_FN: CHECK(rd32(code + p + 1) < mod.function_count, "accepted function index in range"); break;
    case CK_STR: CHECK(rd32(code + p + 1) < mod.string_count, "accepted string index in range"); break;
    case CK_IMP: CHECK(rd32(code + p + 1) < mod.import_count, "accepted import index in range"); break;
    case CK_LOCAL: CHECK(rd16(code + p + 1) < f->local_count, "accepted local slot in range"); break;
    case CK_UPV: CHECK(rd16(code + p + 1) < f->upvalue_count, "accepted upvalue slot in range"); break;
    default: break;
    }
}

void harness(void) {
    ND_ARR(uint8_t, in_code, CODE);
    for (int i = 0; i < CODE; i++) code[i] = (i < SEQ_END) ? in_code[i] : 0;   /* bytes after the sequence: NOPs (a symbolic opcode there costs ~100 s, measured) */
#ifdef ZERO_CODE
    for (int i = 0; i < CODE; i++) code[i] = 0;
#endif
#ifdef OPC0
    code[P0] = OPC0;
#endif
#ifdef OPC1
    code[P1] = OPC1;
#endif
#ifdef OPC2
    code[P2] = OPC2;
#endif
    ND_ARR(uint32_t, in_f0, 3); ND_ARR(uint16_t, in_g0, 3); ND_ARR(uint32_t, in_f1, 3); ND_ARR(uint16_t, in_g1, 3);
    ND(uint32_t, in_strings); ND(uint32_t, in_imports); ND(uint32_t, in_entry); ND(uint32_t, in_flags);
    ASSUME(in_strings <= 2 && in_imports <= 1);
    fns[0].name_idx = in_f0[0]; fns[0].code_length = in_f0[2]; fns[0].arity = in_g0[0]; fns[0].local_count = in_g0[1]; fns[0].upvalue_count = in_g0[2];
#ifdef SYM_OFFSET
    fns[0].code_offset = in_f0[1];
#else
    fns[0].code_offset = 0;
#endif
    fns[1].name_idx = in_f1[0]; fns[1].code_offset = in_f1[1]; fns[1].code_length = in_f1[2];
    fns[1].arity = in_g1[0]; fns[1].local_count = in_g1[1]; fns[1].upvalue_count = in_g1[2];
#if NFUNC > 1 && !defined(SYM_OFFSET)
    ASSUME(fns[1].code_length == 0);     /* function 1 is empty here: only its range is examined */
#endif
    strs[0] = s0; strs[1] = s1; slens[0] = 1; slens[1] = 1;
    imps[0].module_name_idx = 0; imps[0].function_name_idx = 0; imps[0].param_count = 0; imps[0].return_type = 0; ipt[0] = 0;
    memset(&mod, 0, sizeof mod);
    mod.code = code; mod.code_size = CODE; mod.code_capacity = CODE;
    mod.functions = fns; mod.function_count = NFUNC; mod.function_capacity = 2;
    mod.strings = strs; mod.string_lengths = slens; mod.string_count = in_strings; mod.string_capacity = 2;
    mod.imports = imps; mod.import_param_types = ipt; mod.import_count = in_imports; mod.import_capacity = 1;
    mod.header.flags = in_flags; mod.header.entry_point = in_entry;

    NvmVerifyResult r = nvm_verify(&mod);
    if (!r.ok) { WITNESS("rejected"); return; }
    WITNESS("accepted");
    if (in_flags & NVM_FLAG_HAS_MAIN) CHECK(in_entry < NFUNC, "accepted entry point is a function");
    for (int i = 0; i < NFUNC; i++) {
        CHECK((uint64_t)fns[i].code_offset + (uint64_t)fns[i].code_length <= CODE, "accepted function range inside the code section (no 32-bit wrap)");
        CHECK(fns[i].name_idx < in_strings, "accepted function name index in range");
    }
#ifndef SYM_OFFSET
    uint32_t len = fns[0].code_length;
#ifdef OPC0
    check_instr(P0, Z0, CK0, len, &fns[0]);
#endif
#ifdef OPC1
    check_instr(P1, Z1, CK1, len, &fns[0]);
#endif
#ifdef OPC2
    check_instr(P2, Z2, CK2, len, &fns[0]);
#endif
#endif
}
