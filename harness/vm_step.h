/* One-instruction harness for the real vm_core_execute (vm.c) on a directly constructed VM state.
 *
 * Structure concrete (opcode, operand-slot kinds, lengths), payload symbolic (immediates, ints, floats,
 * string bytes, indices, hidden reference counts).  The real TUs vm.c / heap.c / value.c / isa.c are
 * linked unchanged, compiled with -DNANOLANG_VERIF (fuel hook, small VM limits) and, for the audit
 * variant, -Dfree=verif_free so that "freed" becomes a ghost fact the audit can test without touching
 * freed memory.
 *
 * Slots: L0 (a local of the current frame), G0 (global 0), S0 S1 S2 (operand stack, S2 = top; only the
 * first NARGS are present).  Kinds (K_*) below; K_ALIAS0+j means "the same object as slot j".
 */
#ifndef VM_STEP_H
#define VM_STEP_H
#include "verif.h"
#include <stdlib.h>
#include "vm.h"
extern long nl_verif_fuel;
int verif_abort_flag;
#ifndef REPLAY
/* formatting has no solver semantics and is not the subject: error texts are cut at the libc boundary */
#include <stdarg.h>
int vsnprintf(char *s, size_t n, const char *f, va_list ap) { (void)f; (void)ap; if (n) s[0] = 0; return 0; }
int snprintf(char *s, size_t n, const char *f, ...) { (void)f; if (n) s[0] = 0; return 0; }
/* libc functions without a CBMC model: arbitrary results within their contract */
long long nondet_ll(void); double nondet_dbl(void); size_t nondet_sz(void);
long long strtoll(const char *s, char **e, int b) { (void)s; (void)b; if (e) *e = (char *)s; return nondet_ll(); }
double strtod(const char *s, char **e) { (void)s; if (e) *e = (char *)s; return nondet_dbl(); }
char *strstr(const char *h, const char *n) { (void)n; size_t k = nondet_sz(); size_t len = 0; while (h[len]) len++; return (k <= len) ? (char *)h + k : (char *)0; }
#endif

#define K_NONE 0
#define K_VOID 1
#define K_INT 2
#define K_FLOAT 3
#define K_BOOL 4
#define K_U8 5
#define K_ENUM 6
#define K_STR 10        /* string of SLEN symbolic bytes */
#define K_ARR_INT 11    /* array of ALEN symbolic ints, capacity ACAP */
#define K_ARR_STR 12    /* array of ALEN strings (each its own object) */
#define K_STRUCT 13     /* struct: field0 int, field1 string */
#define K_UNION 14      /* union: symbolic variant, field0 int, field1 string */
#define K_TUPLE 15      /* tuple: (int, string) */
#define K_CLOSURE 16    /* closure of function 1 with one captured string */
#define K_HASHMAP 17    /* hashmap with one int->string entry */
#define K_HASHMAP_S 18  /* hashmap with one string->string entry */
#define K_ALIAS0 20     /* + slot index */

#ifndef SLEN
#define SLEN 2
#endif
#ifndef ALEN
#define ALEN 2
#endif
#ifndef ACAP
#define ACAP 8
#endif
#ifndef K_L0
#define K_L0 K_NONE
#endif
#ifndef K_G0
#define K_G0 K_NONE
#endif
#ifndef K_S0
#define K_S0 K_NONE
#endif
#ifndef K_S1
#define K_S1 K_NONE
#endif
#ifndef K_S2
#define K_S2 K_NONE
#endif
#ifndef NLOCALS
#define NLOCALS 2
#endif
#define NSLOTS 5

/* ---------------- ghost allocator facts ---------------- */
#define MAXFREED 16
static void *g_freed[MAXFREED];
static int g_nfreed;
static int g_double_free;
static int g_freed_overflow;
#ifdef GHOST_FREE
void verif_free(void *p) {
    if (!p) return;
    for (int i = 0; i < MAXFREED; i++) if (i < g_nfreed && g_freed[i] == p) g_double_free = 1;
    if (g_nfreed < MAXFREED) g_freed[g_nfreed++] = p; else g_freed_overflow = 1;
    /* memory deliberately kept: the audit may still inspect it */
}
#endif
static int is_freed(const void *p) {
    for (int i = 0; i < MAXFREED; i++) if (i < g_nfreed && g_freed[i] == p) return 1;
    return 0;
}

/* ---------------- registry of pre-state objects ---------------- */
#define MAXREG 8
static struct { void *p; uint8_t tag; uint32_t extra; uint32_t indeg_pre; } g_reg[MAXREG];
static int g_nreg;
static int reg_add(void *p, uint8_t tag, uint32_t extra) {
    g_reg[g_nreg].p = p; g_reg[g_nreg].tag = tag; g_reg[g_nreg].extra = extra; g_reg[g_nreg].indeg_pre = 0;
    return g_nreg++;
}
static int reg_find(const void *p) {
    for (int i = 0; i < MAXREG; i++) if (i < g_nreg && g_reg[i].p == p) return i;
    return -1;
}

/* ---------------- VM state ---------------- */
static NanoValue vs_stack[VERIF_VM_STACK];
static uint8_t vs_code[48];
static NvmFunctionEntry vs_fns[2];
static char *vs_strings[2];
static uint32_t vs_strlens[2];
static char vs_str0[4] = "ab", vs_str1[1] = "";
static NvmModule vs_mod;
static VmState vs_vm;
static VmString *vs_intern[8];
static NanoValue vs_slotval[NSLOTS];
static const NanoValue NV_ZERO;

static uint32_t nd_extra(void);

/* ---------------- object builders ---------------- */
static VmString *mk_string(const uint8_t *bytes, uint32_t len, uint32_t extra) {
    VmString *s = malloc(sizeof(VmString) + len + 1);
    ASSUME(s != NULL);
    s->header.ref_count = 0; s->header.obj_type = TAG_STRING;
    s->length = len;
    uint32_t h = 2166136261u;
    for (uint32_t i = 0; i < len; i++) { s->data[i] = (char)bytes[i]; h ^= bytes[i]; h *= 16777619u; }
    s->data[len] = 0;
    s->hash = h;
    reg_add(s, TAG_STRING, extra);
    return s;
}
static void ref_to(NanoValue v) {   /* account one reference created by the harness */
    if (v.tag == TAG_STRING || v.tag == TAG_ARRAY || v.tag == TAG_STRUCT || v.tag == TAG_UNION ||
        v.tag == TAG_TUPLE || v.tag == TAG_HASHMAP || v.tag == TAG_FUNCTION) {
        int k = reg_find(v.as.obj);
        if (k >= 0) { g_reg[k].indeg_pre++; ((VmHeapHeader *)v.as.obj)->ref_count++; }
    }
}

#define DECL_SLOT_INPUTS(n) \
    ND(int64_t, in_i##n); ND(uint64_t, in_f##n); ND(uint8_t, in_b##n); ND(uint32_t, in_x##n); \
    ND_ARR(uint8_t, in_s##n, 4); ND_ARR(int64_t, in_a##n, 4); ND_ARR(uint8_t, in_t##n, 8);

static NanoValue mk_value(int kind, int64_t i, uint64_t fbits, uint8_t b, uint32_t extra,
                          const uint8_t *sbytes, const int64_t *aints, const uint8_t *tbytes) {
    NanoValue v = NV_ZERO;   /* struct assignment, not memset: keeps the tag a constant for CBMC */
    switch (kind) {
    case K_VOID: v.tag = TAG_VOID; break;
    case K_INT: v.tag = TAG_INT; v.as.i64 = i; break;
    case K_FLOAT: v.tag = TAG_FLOAT; memcpy(&v.as.f64, &fbits, 8); break;
    case K_BOOL: v.tag = TAG_BOOL; v.as.boolean = (b & 1); break;
    case K_U8: v.tag = TAG_U8; v.as.u8 = b; break;
    case K_ENUM: v.tag = TAG_ENUM; v.as.enum_val = (int32_t)i; break;
    case K_STR: v.tag = TAG_STRING; v.as.string = mk_string(sbytes, SLEN, extra); break;
    case K_ARR_INT: case K_ARR_STR: {
        VmArray *a = malloc(sizeof(VmArray)); ASSUME(a != NULL);
        a->header.ref_count = 0; a->header.obj_type = TAG_ARRAY;
        a->elem_type = (kind == K_ARR_INT) ? TAG_INT : TAG_STRING;
        a->length = ALEN; a->capacity = ACAP;
        a->elements = calloc(ACAP, sizeof(NanoValue)); ASSUME(a->elements != NULL);
        reg_add(a, TAG_ARRAY, extra);
        for (int k = 0; k < ALEN; k++) {
            if (kind == K_ARR_INT) { a->elements[k].tag = TAG_INT; a->elements[k].as.i64 = aints[k]; }
            else { a->elements[k].tag = TAG_STRING; a->elements[k].as.string = mk_string(tbytes + 2 * k, 1 + (k & 1), 0); ref_to(a->elements[k]); }
        }
        v.tag = TAG_ARRAY; v.as.array = a; break; }
    case K_STRUCT: {
        VmStruct *s = malloc(sizeof(VmStruct)); ASSUME(s != NULL);
        s->header.ref_count = 0; s->header.obj_type = TAG_STRUCT; s->def_idx = 0; s->field_count = 2; s->field_names = NULL;
        s->fields = calloc(2, sizeof(NanoValue)); ASSUME(s->fields != NULL);
        reg_add(s, TAG_STRUCT, extra);
        s->fields[0].tag = TAG_INT; s->fields[0].as.i64 = aints[0];
        s->fields[1].tag = TAG_STRING; s->fields[1].as.string = mk_string(tbytes, 2, 0); ref_to(s->fields[1]);
        v.tag = TAG_STRUCT; v.as.sval = s; break; }
    case K_UNION: {
        VmUnion *u = malloc(sizeof(VmUnion)); ASSUME(u != NULL);
        u->header.ref_count = 0; u->header.obj_type = TAG_UNION; u->def_idx = 0; u->variant = (uint16_t)(b & 3); u->field_count = 2;
        u->fields = calloc(2, sizeof(NanoValue)); ASSUME(u->fields != NULL);
        reg_add(u, TAG_UNION, extra);
        u->fields[0].tag = TAG_INT; u->fields[0].as.i64 = aints[0];
        u->fields[1].tag = TAG_STRING; u->fields[1].as.string = mk_string(tbytes, 2, 0); ref_to(u->fields[1]);
        v.tag = TAG_UNION; v.as.uval = u; break; }
    case K_TUPLE: {
        VmTuple *t = malloc(sizeof(VmTuple) + 2 * sizeof(NanoValue)); ASSUME(t != NULL);
        t->header.ref_count = 0; t->header.obj_type = TAG_TUPLE; t->count = 2;
        reg_add(t, TAG_TUPLE, extra);
        t->elements[0] = NV_ZERO; t->elements[1] = NV_ZERO;
        t->elements[0].tag = TAG_INT; t->elements[0].as.i64 = aints[0];
        t->elements[1].tag = TAG_STRING; t->elements[1].as.string = mk_string(tbytes, 2, 0); ref_to(t->elements[1]);
        v.tag = TAG_TUPLE; v.as.tuple = t; break; }
    case K_CLOSURE: {
        VmClosure *c = malloc(sizeof(VmClosure) + 1 * sizeof(NanoValue)); ASSUME(c != NULL);
        c->header.ref_count = 0; c->header.obj_type = TAG_FUNCTION; c->fn_idx = 1; c->capture_count = 1;
        reg_add(c, TAG_FUNCTION, extra);
        c->captures[0] = NV_ZERO;
        c->captures[0].tag = TAG_STRING; c->captures[0].as.string = mk_string(tbytes, 2, 0); ref_to(c->captures[0]);
        v.tag = TAG_FUNCTION; v.as.closure = c; break; }
    case K_HASHMAP: case K_HASHMAP_S: {
        VmHashMap *m = malloc(sizeof(VmHashMap)); ASSUME(m != NULL);
        m->header.ref_count = 0; m->header.obj_type = TAG_HASHMAP; m->key_type = TAG_INT; m->val_type = TAG_STRING;
        m->count = 1; m->bucket_count = 2;
        m->buckets = calloc(2, sizeof(VmHMEntry *)); ASSUME(m->buckets != NULL);
        reg_add(m, TAG_HASHMAP, extra);
        VmHMEntry *e = malloc(sizeof(VmHMEntry)); ASSUME(e != NULL);
        e->key = NV_ZERO; e->value = NV_ZERO;
        if (kind == K_HASHMAP) { e->key.tag = TAG_INT; e->key.as.i64 = aints[0]; }
        else { m->key_type = TAG_STRING; e->key.tag = TAG_STRING; e->key.as.string = mk_string(tbytes + 2, 2, 0); ref_to(e->key); }
        e->value.tag = TAG_STRING; e->value.as.string = mk_string(tbytes, 2, 0); ref_to(e->value);
        e->next = NULL;
        m->buckets[b & 1] = e;
        v.tag = TAG_HASHMAP; v.as.hashmap = m; break; }
    default: v.tag = TAG_VOID; break;
    }
    return v;
}

/* ---------------- audit (C14 invariant + exactly-once) ---------------- */
static uint32_t g_indeg[MAXREG];
static int g_dangling, g_new_bad;
static void count_ref(NanoValue v, int depth);
static void count_children(void *p, uint8_t tag, int depth) {
    if (depth <= 0) return;
    switch (tag) {
    case TAG_ARRAY: { VmArray *a = p; for (uint32_t k = 0; k < ACAP + 1; k++) if (k < a->length && k < a->capacity) count_ref(a->elements[k], depth - 1); break; }
    case TAG_STRUCT: { VmStruct *s = p; for (uint32_t k = 0; k < 3; k++) if (k < s->field_count) count_ref(s->fields[k], depth - 1); break; }
    case TAG_UNION: { VmUnion *u = p; for (uint32_t k = 0; k < 3; k++) if (k < u->field_count) count_ref(u->fields[k], depth - 1); break; }
    case TAG_TUPLE: { VmTuple *t = p; for (uint32_t k = 0; k < 3; k++) if (k < t->count) count_ref(t->elements[k], depth - 1); break; }
    case TAG_FUNCTION: { VmClosure *c = p; for (uint32_t k = 0; k < 2; k++) if (k < c->capture_count) count_ref(c->captures[k], depth - 1); break; }
    case TAG_HASHMAP: { VmHashMap *m = p; for (uint32_t bk = 0; bk < 9; bk++) if (bk < m->bucket_count) {
            VmHMEntry *e = m->buckets[bk]; for (int n = 0; n < 3 && e; n++) { count_ref(e->key, depth - 1); count_ref(e->value, depth - 1); e = e->next; } } break; }
    default: break;
    }
}
/* new containers (created by the instruction) are walked once from the root that reaches them;
 * registered containers are walked once each from audit() */
static void count_ref(NanoValue v, int depth) {
    if (!(v.tag == TAG_STRING || v.tag == TAG_ARRAY || v.tag == TAG_STRUCT || v.tag == TAG_UNION ||
          v.tag == TAG_TUPLE || v.tag == TAG_HASHMAP || v.tag == TAG_FUNCTION)) return;
    void *p = v.as.obj;
    if (!p) return;
    int k = reg_find(p);
    if (k >= 0) { g_indeg[k]++; return; }
    /* an object the instruction created */
    if (is_freed(p)) { g_dangling = 1; return; }
    if (((VmHeapHeader *)p)->ref_count == 0) g_new_bad = 1;
    count_children(p, v.tag, depth);
}
#endif
