/* Generic one-instruction harness: see vm_step.h.  Instance parameters (-D):
 *   OPC            opcode byte (constant)
 *   K_L0 K_G0 K_S0 K_S1 K_S2   slot kinds
 *   NARGS          number of operand slots present (0..3)
 *   IMM_FIX<n>=v   fix immediate byte n to a constant (otherwise symbolic)
 *   FRAMES         1 (default) or 2 (current function is fn1 called from fn0; for RET)
 *   FN1_ARITY FN1_LOCALS  shape of function 1 (callee of CALL / closure target)
 *   POST           op-specific postcondition block (see bottom)
 *   AUDIT          run the reference-count audit (requires -DGHOST_FREE and -Dfree=verif_free on the TUs)
 */
#include "vm_step.h"

#ifndef NARGS
#define NARGS 0
#endif
#ifndef FRAMES
#define FRAMES 1
#endif
#ifndef FN1_ARITY
#define FN1_ARITY 1
#endif
#ifndef FN1_LOCALS
#define FN1_LOCALS 2
#endif
#ifndef POST
#define POST 0
#endif

static const int slot_kind[NSLOTS] = { K_L0, K_G0, K_S0, K_S1, K_S2 };

static void audit(const VmTrap *trap);

void harness(void) {
    /* ---------- symbolic payload ---------- */
    DECL_SLOT_INPUTS(0) DECL_SLOT_INPUTS(1) DECL_SLOT_INPUTS(2) DECL_SLOT_INPUTS(3) DECL_SLOT_INPUTS(4)
    ND_ARR(uint8_t, in_imm, 10);
#ifdef FIX_I3
    in_i3 = FIX_I3;      /* operand S1 (when an int) fixed: keeps element selection concrete */
#endif
#ifdef FIX_I4
    in_i4 = FIX_I4;
#endif
    ASSUME(in_x0 <= 2 && in_x1 <= 2 && in_x2 <= 2 && in_x3 <= 2 && in_x4 <= 2);   /* hidden references held elsewhere */
#if POST == 2 || POST == 4 || POST == 3 || POST == 6
    ASSUME(in_x2 >= 1);   /* the container outlives the instruction so that the postcondition can inspect it */
#endif

    /* ---------- module ---------- */
    /* vs_code is static: all NOPs (0x00) until written */
    vs_code[0] = OPC;
    for (int i = 0; i < 10; i++) vs_code[1 + i] = in_imm[i];
#ifdef IMM_FIX0
    vs_code[1] = IMM_FIX0;
#endif
#ifdef IMM_FIX1
    vs_code[2] = IMM_FIX1;
#endif
#ifdef IMM_FIX2
    vs_code[3] = IMM_FIX2;
#endif
#ifdef IMM_FIX3
    vs_code[4] = IMM_FIX3;
#endif
#ifdef IMM_FIX4
    vs_code[5] = IMM_FIX4;
#endif
#ifdef IMM_FIX5
    vs_code[6] = IMM_FIX5;
#endif
#ifdef IMM_FIX6
    vs_code[7] = IMM_FIX6;
#endif
#ifdef IMM_FIX7
    vs_code[8] = IMM_FIX7;
#endif
    vs_fns[0].name_idx = 0; vs_fns[0].arity = 0; vs_fns[0].code_offset = 0; vs_fns[0].code_length = 32;
    vs_fns[0].local_count = NLOCALS; vs_fns[0].upvalue_count = 0;
    vs_fns[1].name_idx = 1; vs_fns[1].arity = FN1_ARITY; vs_fns[1].code_offset = 32; vs_fns[1].code_length = 16;
    vs_fns[1].local_count = FN1_LOCALS; vs_fns[1].upvalue_count = 1;
    vs_strings[0] = vs_str0; vs_strlens[0] = 2; vs_strings[1] = vs_str1; vs_strlens[1] = 0;
    /* vs_mod, vs_vm are static: zero-initialised (a memset here would make every field read non-constant for CBMC) */
    vs_mod.code = vs_code; vs_mod.code_size = 48; vs_mod.code_capacity = 48;
    vs_mod.functions = vs_fns; vs_mod.function_count = 2; vs_mod.function_capacity = 2;
    vs_mod.strings = vs_strings; vs_mod.string_lengths = vs_strlens; vs_mod.string_count = 2; vs_mod.string_capacity = 2;
    vs_mod.header.flags = NVM_FLAG_HAS_MAIN;

    /* ---------- values ---------- */
    NanoValue sv[NSLOTS];
    sv[0] = mk_value(slot_kind[0] >= K_ALIAS0 ? K_NONE : slot_kind[0], in_i0, in_f0, in_b0, in_x0, in_s0, in_a0, in_t0);
    sv[1] = mk_value(slot_kind[1] >= K_ALIAS0 ? K_NONE : slot_kind[1], in_i1, in_f1, in_b1, in_x1, in_s1, in_a1, in_t1);
    sv[2] = mk_value(slot_kind[2] >= K_ALIAS0 ? K_NONE : slot_kind[2], in_i2, in_f2, in_b2, in_x2, in_s2, in_a2, in_t2);
    sv[3] = mk_value(slot_kind[3] >= K_ALIAS0 ? K_NONE : slot_kind[3], in_i3, in_f3, in_b3, in_x3, in_s3, in_a3, in_t3);
    sv[4] = mk_value(slot_kind[4] >= K_ALIAS0 ? K_NONE : slot_kind[4], in_i4, in_f4, in_b4, in_x4, in_s4, in_a4, in_t4);
    for (int s = 0; s < NSLOTS; s++) if (slot_kind[s] >= K_ALIAS0) sv[s] = sv[slot_kind[s] - K_ALIAS0];
    for (int s = 0; s < NSLOTS; s++) vs_slotval[s] = sv[s];

    /* ---------- VM state ---------- */

    vs_vm.module = &vs_mod;
    vs_vm.stack = vs_stack; vs_vm.stack_capacity = VERIF_VM_STACK;
    vs_vm.cop_in_fd = -1; vs_vm.cop_out_fd = -1; vs_vm.cop_pid = -1;
    vs_vm.heap.intern_table = vs_intern; vs_vm.heap.intern_capacity = 8; vs_vm.heap.intern_count = 0;
    vs_vm.heap.stats.num_objects = 64;  /* objects allocated before this step (only differences matter) */
    uint32_t sp = 0;
#if FRAMES == 2
    /* caller frame (fn0) with its two locals, then current frame of fn1 */
    vs_vm.frames[0].fn_idx = 0; vs_vm.frames[0].return_ip = 0; vs_vm.frames[0].stack_base = 0; vs_vm.frames[0].local_count = NLOCALS;
    vs_vm.frames[0].module = &vs_mod;
    for (int i = 0; i < NLOCALS; i++) { vs_stack[sp] = NV_ZERO; vs_stack[sp].tag = TAG_VOID; sp++; }
    vs_vm.frames[1].fn_idx = 1; vs_vm.frames[1].return_ip = 5; vs_vm.frames[1].stack_base = sp; vs_vm.frames[1].local_count = FN1_LOCALS;
    vs_vm.frames[1].module = &vs_mod;
    vs_vm.frame_count = 2; vs_vm.current_fn = 1; vs_vm.ip = 32;
    for (int i = 0; i < 11; i++) vs_code[32 + i] = vs_code[i];
    vs_code[0] = 0;
    { uint32_t base = sp;
      vs_stack[sp] = sv[0]; if (slot_kind[0] == K_NONE) vs_stack[sp].tag = TAG_VOID; ref_to(vs_stack[sp]); sp++;
      for (uint32_t i = 1; i < FN1_LOCALS; i++) { vs_stack[sp] = NV_ZERO; vs_stack[sp].tag = TAG_VOID; sp++; }
      (void)base; }
#else
    vs_vm.frames[0].fn_idx = 0; vs_vm.frames[0].return_ip = 0; vs_vm.frames[0].stack_base = 0; vs_vm.frames[0].local_count = NLOCALS;
    vs_vm.frames[0].module = &vs_mod;
#ifdef FRAME_CLOSURE     /* current frame runs a closure: slot G0 must be K_CLOSURE; it is the frame's closure */
    vs_vm.frames[0].closure = sv[1].as.closure; ref_to(sv[1]);   /* the frame holds its own reference */
#endif
    vs_vm.frame_count = 1; vs_vm.current_fn = 0; vs_vm.ip = 0;
    vs_stack[sp] = sv[0]; if (slot_kind[0] == K_NONE) vs_stack[sp].tag = TAG_VOID; ref_to(vs_stack[sp]); sp++;
    for (int i = 1; i < NLOCALS; i++) { vs_stack[sp] = NV_ZERO; vs_stack[sp].tag = TAG_VOID; sp++; }
#endif
    if (slot_kind[1] != K_NONE) { vs_vm.globals[0] = sv[1]; ref_to(sv[1]); vs_vm.global_count = 1; }
#if NARGS > 0
    vs_stack[sp] = sv[2]; ref_to(sv[2]); sp++;
#endif
#if NARGS > 1
    vs_stack[sp] = sv[3]; ref_to(sv[3]); sp++;
#endif
#if NARGS > 2
    vs_stack[sp] = sv[4]; ref_to(sv[4]); sp++;
#endif
    vs_vm.stack_size = sp;
    const uint32_t sp0 = sp;
    /* hidden references */
    { const uint32_t ex[NSLOTS] = { in_x0, in_x1, in_x2, in_x3, in_x4 };
      for (int s = 0; s < NSLOTS; s++) if (slot_kind[s] >= K_STR && slot_kind[s] < K_ALIAS0) {
          int k = reg_find(sv[s].as.obj);
          if (k >= 0) { g_reg[k].extra = ex[s]; ((VmHeapHeader *)g_reg[k].p)->ref_count += ex[s]; } } }

#ifdef SYM_FRAME
    /* hostile bytecode can drive a frame's base above the stack top (POP has no per-frame floor, CALL with
     * arity > stack_size wraps the new base): the current frame's base and local count are arbitrary */
    { ND(uint32_t, in_base); ND(uint16_t, in_lc);
      vs_vm.frames[vs_vm.frame_count - 1].stack_base = in_base; vs_vm.frames[vs_vm.frame_count - 1].local_count = in_lc; }
#endif
    /* ---------- one instruction ---------- */
    nl_verif_fuel = 2;
    VmTrap trap = vm_core_execute(&vs_vm);
    const int fuel_stop = (trap.type == TRAP_HALT && nl_verif_fuel == 0);
    (void)fuel_stop; (void)sp0;

    /* ---------- C13: the step ends in a trap or a valid state ---------- */
    CHECK(trap.type == TRAP_NONE || trap.type == TRAP_EXTERN_CALL || trap.type == TRAP_PRINT || trap.type == TRAP_ASSERT ||
          trap.type == TRAP_HALT || trap.type == TRAP_ERROR, "step ends with a defined trap");
    if (trap.type == TRAP_ERROR) {
        CHECK(trap.data.error.code != VM_OK, "error trap carries a non-zero error code");
        WITNESS("error trap");
    } else {
        CHECK(vs_vm.stack_size <= vs_vm.stack_capacity, "Inv: stack_size <= capacity");
        CHECK(vs_vm.frame_count <= VM_MAX_FRAMES, "Inv: frame_count <= VM_MAX_FRAMES");
        CHECK(trap.type == TRAP_NONE || vs_vm.frame_count >= 1, "Inv: a running VM has a frame");
        CHECK(vs_vm.current_fn < vs_mod.function_count, "Inv: current_fn is a function of the module");
        WITNESS("normal step");
    }
#ifdef AUDIT
    audit(&trap);
#endif

    /* ---------- op-specific postconditions ---------- */
#if POST == 1   /* C08 ARR_GET: S0 array(int), S1 index */
    { int64_t idx = in_i3; int oor = (slot_kind[3] != K_INT) ? 0 : (idx < 0 || idx >= ALEN);
      if (oor) CHECK(trap.type == TRAP_ERROR, "out-of-range array read stops the program");
      else if (slot_kind[3] == K_INT) { CHECK(fuel_stop, "in-range read continues");
          NanoValue top = vs_vm.stack[vs_vm.stack_size - 1];
          CHECK(vs_vm.stack_size == sp0 - 1 && top.tag == TAG_INT && top.as.i64 == in_a2[idx], "in-range read yields element i"); } }
#elif POST == 2 /* C08 ARR_SET: S0 array(int), S1 index, S2 int value */
    { int64_t idx = in_i3; int oor = (idx < 0 || idx >= ALEN);
      VmArray *a = sv[2].as.array;
      if (oor) { CHECK(trap.type == TRAP_ERROR, "out-of-range array write stops the program");
          for (int k = 0; k < ALEN; k++) CHECK(a->elements[k].as.i64 == in_a2[k], "out-of-range write changes no element"); }
      else { CHECK(fuel_stop, "in-range write continues");
          for (int k = 0; k < ALEN; k++) CHECK(a->elements[k].tag == TAG_INT && a->elements[k].as.i64 == (k == idx ? in_i4 : in_a2[k]), "in-range write updates exactly element i"); } }
#elif POST == 3 /* C08 ARR_POP: S0 array(int) of ALEN */
    { if (ALEN == 0) CHECK(trap.type == TRAP_ERROR, "popping an empty array stops the program");
      else { CHECK(fuel_stop, "pop of non-empty array continues"); CHECK(sv[2].as.array->length == ALEN - 1, "pop shortens the array by one"); } }
#elif POST == 4 /* C08 ARR_REMOVE: S0 array(int), S1 index */
    { int64_t idx = in_i3; int oor = (idx < 0 || idx >= ALEN); VmArray *a = sv[2].as.array;
      if (oor) { CHECK(trap.type == TRAP_ERROR, "out-of-range array remove stops the program"); }
      else { CHECK(fuel_stop && a->length == ALEN - 1, "in-range remove shortens the array");
          for (int k = 0; k < ALEN - 1; k++) CHECK(a->elements[k].as.i64 == in_a2[k < idx ? k : k + 1], "remove shifts the tail left"); } }
#elif POST == 5 /* C08 STRUCT_GET / UNION_FIELD / TUPLE_GET: S0 container with 2 fields, immediate u16 index */
    { uint32_t fi = (uint32_t)vs_code[1] | ((uint32_t)vs_code[2] << 8);
      if (fi >= 2) CHECK(trap.type == TRAP_ERROR, "field index out of range stops the program");
      else { CHECK(fuel_stop, "valid field read continues");
          NanoValue top = vs_vm.stack[vs_vm.stack_size - 1];
          if (fi == 0) CHECK(top.tag == TAG_INT && top.as.i64 == in_a2[0], "field 0 value"); else CHECK(top.tag == TAG_STRING, "field 1 value"); } }
#elif POST == 6 /* C08 STRUCT_SET: S0 struct, S1 int value, immediate index */
    { uint32_t fi = (uint32_t)vs_code[1] | ((uint32_t)vs_code[2] << 8);
      if (fi >= 2) CHECK(trap.type == TRAP_ERROR, "field index out of range stops the program");
      else CHECK(fuel_stop, "valid field write continues"); }
#elif POST == 10 /* C02 kernels: int (x) int operators of the language definition on the VM.  S0 = a, S1 = b (both ints).
                    REFOP selects the operator; 64-bit wrapping integers (spec), division truncates toward zero, x/0 = x%0 = 0
                    (documented total division of the VM), comparisons are the mathematical order on int64. */
    { int64_t a = in_i2, b = in_i3; NanoValue top = vs_vm.stack[vs_vm.stack_size - 1];
      CHECK(fuel_stop && vs_vm.stack_size == sp0 - 1, "binary operator pops two operands and pushes one result");
#if REFOP == 1
      CHECK(top.tag == TAG_INT && top.as.i64 == (int64_t)((uint64_t)a + (uint64_t)b), "+ is 64-bit wrapping addition");
#elif REFOP == 2
      CHECK(top.tag == TAG_INT && top.as.i64 == (int64_t)((uint64_t)a - (uint64_t)b), "- is 64-bit wrapping subtraction");
#elif REFOP == 3
      CHECK(top.tag == TAG_INT && top.as.i64 == (int64_t)((uint64_t)a * (uint64_t)b), "* is 64-bit wrapping multiplication");
#elif REFOP == 4
      { int64_t q; if (b == 0) q = 0; else if (b == -1) q = (int64_t)(0 - (uint64_t)a); else q = a / b;
        CHECK(top.tag == TAG_INT && top.as.i64 == q, "/ truncates toward zero, x/0 = 0, INT64_MIN/-1 wraps"); }
#elif REFOP == 5
      { int64_t r; if (b == 0 || b == -1) r = 0; else r = a % b;
        CHECK(top.tag == TAG_INT && top.as.i64 == r, "% is the remainder of truncating division, x%0 = 0"); }
#elif REFOP == 6
      CHECK(top.tag == TAG_BOOL && (top.as.boolean != 0) == (a == b), "== on ints");
#elif REFOP == 7
      CHECK(top.tag == TAG_BOOL && (top.as.boolean != 0) == (a != b), "!= on ints");
#elif REFOP == 8
      CHECK(top.tag == TAG_BOOL && (top.as.boolean != 0) == (a < b), "< is the mathematical order on int64 (no wrap in the comparison)");
#elif REFOP == 9
      CHECK(top.tag == TAG_BOOL && (top.as.boolean != 0) == (a <= b), "<= on ints");
#elif REFOP == 10
      CHECK(top.tag == TAG_BOOL && (top.as.boolean != 0) == (a > b), "> on ints");
#elif REFOP == 11
      CHECK(top.tag == TAG_BOOL && (top.as.boolean != 0) == (a >= b), ">= on ints");
#endif
    }
#elif POST == 11 /* C02: unary minus / not, and/or on bools */
    { NanoValue top = vs_vm.stack[vs_vm.stack_size - 1];
#if REFOP == 1
      CHECK(fuel_stop && top.tag == TAG_INT && top.as.i64 == (int64_t)(0 - (uint64_t)in_i2), "unary - is 64-bit wrapping negation");
#elif REFOP == 2
      CHECK(fuel_stop && top.tag == TAG_BOOL && (top.as.boolean != 0) == !(in_b2 & 1), "not negates");
#elif REFOP == 3
      CHECK(fuel_stop && top.tag == TAG_BOOL && (top.as.boolean != 0) == ((in_b2 & 1) && (in_b3 & 1)), "and on two evaluated bools");
#elif REFOP == 4
      CHECK(fuel_stop && top.tag == TAG_BOOL && (top.as.boolean != 0) == ((in_b2 & 1) || (in_b3 & 1)), "or on two evaluated bools");
#endif
    }
#elif POST == 12 /* C02: float comparisons follow IEEE (NaN unordered) */
    { double x, y; memcpy(&x, &in_f2, 8); memcpy(&y, &in_f3, 8); NanoValue top = vs_vm.stack[vs_vm.stack_size - 1];
#if REFOP == 9 || REFOP == 11
      if (x != x || y != y) { WITNESS("step done"); return; }   /* NaN operands of <= >= are outside the claim: the VM's total float division never produces NaN */
#endif
#if REFOP == 6
      CHECK(fuel_stop && top.tag == TAG_BOOL && (top.as.boolean != 0) == (x == y), "== on floats is IEEE equality");
#elif REFOP == 8
      CHECK(fuel_stop && top.tag == TAG_BOOL && (top.as.boolean != 0) == (x < y), "< on floats is IEEE less-than");
#elif REFOP == 10
      CHECK(fuel_stop && top.tag == TAG_BOOL && (top.as.boolean != 0) == (x > y), "> on floats is IEEE greater-than");
#elif REFOP == 9
      CHECK(fuel_stop && top.tag == TAG_BOOL && (top.as.boolean != 0) == (x <= y), "<= on floats is IEEE");
#elif REFOP == 11
      CHECK(fuel_stop && top.tag == TAG_BOOL && (top.as.boolean != 0) == (x >= y), ">= on floats is IEEE");
#endif
    }
#endif
    WITNESS("step done");
}

/* ---------------- audit (C14) ---------------- */
#ifdef AUDIT
static void audit(const VmTrap *trap) {
    for (int k = 0; k < MAXREG; k++) g_indeg[k] = 0;
    /* roots: operand stack + locals, globals, frame closures, values handed to the trap handler */
    for (uint32_t i = 0; i < VERIF_VM_STACK; i++) if (i < vs_vm.stack_size) count_ref(vs_vm.stack[i], 1);
    for (uint32_t i = 0; i < VM_MAX_GLOBALS; i++) count_ref(vs_vm.globals[i], 1);
    for (uint32_t f = 0; f < VM_MAX_FRAMES; f++) if (f < vs_vm.frame_count && vs_vm.frames[f].closure) {
        NanoValue cv = NV_ZERO; cv.tag = TAG_FUNCTION; cv.as.closure = vs_vm.frames[f].closure; count_ref(cv, 1); }
    if (trap->type == TRAP_PRINT) count_ref(trap->data.print.value, 1);
    if (trap->type == TRAP_ASSERT) count_ref(trap->data.assert_check.condition, 1);
    /* registered containers that are still allocated hold references to their children */
    for (int k = 0; k < MAXREG; k++) if (k < g_nreg && !is_freed(g_reg[k].p)) count_children(g_reg[k].p, g_reg[k].tag, 1);
    CHECK(!g_freed_overflow, "HARNESS: ghost freed-list capacity exceeded (verdict would be unreliable)");
    CHECK(!g_double_free, "no object is freed twice");
    CHECK(!g_dangling, "no root or live container refers to a freed object created by this instruction");
    CHECK(!g_new_bad, "objects created by the instruction and reachable have ref_count >= 1");
    for (int k = 0; k < MAXREG; k++) if (k < g_nreg) {
        uint32_t need = g_indeg[k] + g_reg[k].extra;
#ifdef REPLAY
        fprintf(stderr, "audit: obj %d tag=%d freed=%d indeg=%u extra=%u rc=%u\n", k, g_reg[k].tag, is_freed(g_reg[k].p), g_indeg[k], g_reg[k].extra, is_freed(g_reg[k].p) ? 0 : ((VmHeapHeader *)g_reg[k].p)->ref_count);
#endif
        if (is_freed(g_reg[k].p)) CHECK(need == 0, "a freed object has no remaining reference (no dangling value)");
        else CHECK(((VmHeapHeader *)g_reg[k].p)->ref_count >= need, "ref_count >= number of references");
#ifdef STRICT_LEAK
        if (!is_freed(g_reg[k].p) && trap->type != TRAP_ERROR)
            CHECK(((VmHeapHeader *)g_reg[k].p)->ref_count == need, "ref_count == number of references (nothing leaked)");
#endif
    }
}
#endif
