/* C15 (transport): read_all / write_all of cop_protocol.c deliver exactly the peer's bytes, in order, for
 * every way the kernel may chunk the transfer (each read/write moves a symbolic 1..remaining bytes, one EINTR
 * allowed).  LEN bytes of symbolic content. */
#include "verif.h"
#include <stdlib.h>
#include <errno.h>
#include <unistd.h>
int verif_abort_flag;
#ifndef LEN
#define LEN 6
#endif
static uint8_t stream[LEN + 1]; static size_t spos;      /* what the peer sends / receives */
static int eintr_left = 1;
size_t nondet_size(void); int nondet_int(void);
#ifndef REPLAY
ssize_t read(int fd, void *buf, size_t n) {
    (void)fd;
    if (eintr_left && (nondet_int() & 1)) { eintr_left = 0; errno = EINTR; return -1; }
    size_t avail = LEN - spos; size_t r = nondet_size();
    __CPROVER_assume(r >= 1 && r <= n && r <= avail);
    for (size_t i = 0; i < LEN; i++) if (i < r) ((uint8_t *)buf)[i] = stream[spos + i];
    spos += r; return (ssize_t)r;
}
ssize_t write(int fd, const void *buf, size_t n) {
    (void)fd;
    if (eintr_left && (nondet_int() & 1)) { eintr_left = 0; errno = EINTR; return -1; }
    size_t r = nondet_size();
    __CPROVER_assume(r >= 1 && r <= n && spos + r <= LEN);
    for (size_t i = 0; i < LEN; i++) if (i < r) stream[spos + i] = ((const uint8_t *)buf)[i];
    spos += r; return (ssize_t)r;
}
#endif
#include "cop_protocol.c"
void harness(void) {
    ND_ARR(uint8_t, in_data, LEN);
#if DIR == 0
    for (int i = 0; i < LEN; i++) stream[i] = in_data[i];
    uint8_t buf[LEN + 1];
    bool ok = read_all(3, buf, LEN);
    CHECK(ok, "read_all succeeds when the peer sends all bytes");
    for (int i = 0; i < LEN; i++) CHECK(buf[i] == in_data[i], "read_all delivers the peer's bytes in order, whatever the chunking");
#else
    bool ok = write_all(3, in_data, LEN);
    CHECK(ok && spos == LEN, "write_all sends everything");
    for (int i = 0; i < LEN; i++) CHECK(stream[i] == in_data[i], "write_all sends the bytes in order, whatever the chunking");
#endif
    WITNESS("transfer done");
}
