/* C05 (type-checker rule kernels): the real typechecker.c check_statement on small statically built bodies, with the
 * facts the rule depends on symbolic.  Compiled with -Dunion=struct (CBMC does not track pointers stored in unions).
 * RULE 1  external call outside an unsafe context: body = [ <U>, (ext) ] or [ <U> ] (NOTRAIL) with
 *         U = UK: 0 nothing, 1 unsafe { (ext) }, 2 unsafe { return 0 }, 3 unsafe { unsafe { } (ext) };
 *         symbolic: is the callee extern, is the module unsafe, the two warning switches.
 *         Oracle: a trailing call is an error iff callee extern and module not unsafe; calls inside unsafe never are;
 *         the unsafe flag is back to false afterwards.
 * RULE 2  return of the wrong type: body = [ return <literal of kind LK> ], declared return type symbolic over
 *         int/bool/float/string/void.  Oracle: error iff declared type != literal type.
 * RULE 3  non-bool condition: body = [ assert <literal LK> ] / [ if <literal LK> { } ].  Oracle: error iff LK is not bool. */
#include "verif.h"
#include <stdlib.h>
#include <stdio.h>
#ifndef REPLAY
int fprintf(FILE *f, const char *fmt, ...) { (void)f; (void)fmt; return 0; }
int snprintf(char *s, size_t n, const char *f, ...) { (void)f; if (n) s[0] = 0; return 0; }
void exit(int c) { (void)c; __CPROVER_assume(0); }
#endif
#include "typechecker.c"
int verif_abort_flag;
static Function extfn;
#ifndef REPLAY
Function *env_get_function(Environment *e, const char *n) { (void)e; return (n && n[0] == 'e' && n[1] == 'x' && n[2] == 't' && n[3] == 0) ? &extfn : NULL; }
Symbol *env_get_var(Environment *e, const char *n) { (void)e; (void)n; return NULL; }
#endif
static char extname[4] = "ext";
static Environment env;
static TypeChecker tc;
#ifndef UK
#define UK 0
#endif
#ifndef NOTRAIL
#define NOTRAIL 0
#endif
#ifndef LK
#define LK AST_NUMBER
#endif
static ASTNode lit = { .type = LK, .line = 1, .as.number = 1 };
#if RULE == 1
static ASTNode call_in = { .type = AST_CALL, .line = 2, .as.call = { .name = extname, .arg_count = 0 } };
static ASTNode call_out = { .type = AST_CALL, .line = 5, .as.call = { .name = extname, .arg_count = 0 } };
static ASTNode zero = { .type = AST_NUMBER, .line = 2, .as.number = 0 };
static ASTNode ret0 = { .type = AST_RETURN, .line = 2, .as.return_stmt = { .value = &zero } };
static ASTNode inner_unsafe = { .type = AST_UNSAFE_BLOCK, .line = 2, .as.unsafe_block = { .statements = 0, .count = 0 } };
#if UK == 1
static ASTNode *ustmts[2] = { &call_in };
#define UCOUNT 1
#elif UK == 2
static ASTNode *ustmts[2] = { &ret0 };
#define UCOUNT 1
#else
static ASTNode *ustmts[2] = { &inner_unsafe, &call_in };
#define UCOUNT 2
#endif
static ASTNode ublock = { .type = AST_UNSAFE_BLOCK, .line = 1, .as.unsafe_block = { .statements = ustmts, .count = UCOUNT } };
#if UK == 0
static ASTNode *bstmts[2] = { &call_out };
#define BCOUNT 1
#elif NOTRAIL
static ASTNode *bstmts[2] = { &ublock };
#define BCOUNT 1
#else
static ASTNode *bstmts[2] = { &ublock, &call_out };
#define BCOUNT 2
#endif
#elif RULE == 2
static ASTNode retlit = { .type = AST_RETURN, .line = 1, .as.return_stmt = { .value = &lit } };
static ASTNode *bstmts[2] = { &retlit };
#define BCOUNT 1
#else
static ASTNode emptyblk = { .type = AST_BLOCK, .line = 1, .as.block = { .statements = 0, .count = 0 } };
#if COND_IN == 1
static ASTNode condstmt = { .type = AST_IF, .line = 1, .as.if_stmt = { .condition = &lit, .then_branch = &emptyblk, .else_branch = 0 } };
#else
static ASTNode condstmt = { .type = AST_ASSERT, .line = 1, .as.assert = { .condition = &lit } };
#endif
static ASTNode *bstmts[2] = { &condstmt };
#define BCOUNT 1
#endif
static ASTNode body = { .type = AST_BLOCK, .line = 1, .as.block = { .statements = bstmts, .count = BCOUNT } };

static Type lit_type(void) { return LK == AST_NUMBER ? TYPE_INT : LK == AST_BOOL ? TYPE_BOOL : LK == AST_FLOAT ? TYPE_FLOAT : TYPE_STRING; }

void harness(void) {
    ND(uint8_t, in_extern); ND(uint8_t, in_modunsafe); ND(uint8_t, in_warn); ND(uint8_t, in_rt);
    extfn.name = extname; extfn.is_extern = in_extern & 1; extfn.param_count = 0; extfn.return_type = TYPE_INT;
    env.current_module_is_unsafe = in_modunsafe & 1; env.warn_ffi = in_warn & 1; env.warn_unsafe_calls = (in_warn >> 1) & 1;
    tc.env = &env; tc.has_error = false; tc.in_unsafe_block = false; tc.loop_depth = 0;
    static const Type rts[5] = { TYPE_INT, TYPE_BOOL, TYPE_FLOAT, TYPE_STRING, TYPE_VOID };
    ASSUME(in_rt < 5);
#if RULE == 1
    ASSUME(in_rt == 0);      /* the enclosing function returns int (the `return 0` of UK 2 is well typed) */
#endif
    tc.current_function_return_type = rts[in_rt];
    check_statement(&tc, &body);
#if RULE == 1
  #if !NOTRAIL
    CHECK(!tc.in_unsafe_block, "C05: the unsafe context ends with the unsafe block");      /* observable: the trailing call below */
  #endif
  #if NOTRAIL
    CHECK(!tc.has_error, "C05: an external call inside an unsafe block is not an error");
  #else
    if ((in_extern & 1) && !(in_modunsafe & 1)) CHECK(tc.has_error, "C05: an external call outside an unsafe context is rejected");
    else CHECK(!tc.has_error, "C05: a call that needs no unsafe context is not an error");
  #endif
#elif RULE == 2
    if (rts[in_rt] != lit_type()) CHECK(tc.has_error, "C05: a return of the wrong type is rejected");
    else CHECK(!tc.has_error, "C05: a return of the declared type is not an error");
#else
    if (lit_type() != TYPE_BOOL) CHECK(tc.has_error, "C05: a non-bool condition is rejected");
    else CHECK(!tc.has_error, "C05: a bool condition is not an error");
#endif
    WITNESS("checked");
}
