/* E2 runtime: static VM state, the single-step primitive and the call prologue (transcribed from
 * vm_call_function / its trap loop in vm.c).  Included by the generated <program>_vm.h after the module data. */
#ifndef E2_RUNTIME_H
#define E2_RUNTIME_H
#ifndef E2_STACK
#define E2_STACK 48
#endif
extern long nl_verif_fuel;
static NvmModule e2_mod;
static VmState e2_vm;
static NanoValue e2_stack[E2_STACK];
static VmString *e2_intern[32];
static int e2_err;              /* VmResult of an error trap (0 = none) */
static int e2_done;             /* OP_HALT executed */
static int e2_fell_off_end;     /* a function body ended without RET (driver does not model the implicit return) */
static int e2_steps;
static VmTrap e2_trap;

static void e2_setup(void) {
    e2_mod.code = e2_code; e2_mod.code_size = E2_CODESZ; e2_mod.code_capacity = E2_CODESZ;
    e2_mod.functions = e2_fns; e2_mod.function_count = E2_NFUNC; e2_mod.function_capacity = E2_NFUNC;
    e2_mod.strings = e2_strs; e2_mod.string_lengths = e2_slens; e2_mod.string_count = E2_NSTR; e2_mod.string_capacity = E2_NSTR;
    e2_mod.header.flags = E2_FLAGS; e2_mod.header.entry_point = E2_ENTRY;
    e2_vm.module = &e2_mod; e2_vm.stack = e2_stack; e2_vm.stack_capacity = E2_STACK; e2_vm.stack_size = 0;
    e2_vm.frame_count = 0; e2_vm.ip = 0; e2_vm.current_fn = 0; e2_vm.output = 0;
    e2_vm.cop_in_fd = -1; e2_vm.cop_out_fd = -1; e2_vm.cop_pid = -1;
    e2_vm.heap.intern_table = e2_intern; e2_vm.heap.intern_capacity = 32; e2_vm.heap.intern_count = 0;
    e2_err = 0; e2_done = 0; e2_fell_off_end = 0;
}

/* execute exactly one instruction at the (asserted, then constant) offset `off`; returns 1 when the run ends here */
static int e2_step(uint32_t off) {
    __CPROVER_assert(e2_vm.ip == off, "driver: the interpreter's ip equals the control-flow label (driver mirrors the bytecode CFG)");
    e2_vm.ip = off;
    __CPROVER_assert(e2_vm.stack_size < E2_STACK - 2, "driver bound: operand stack stays below the static capacity");
    nl_verif_fuel = 2;
    e2_steps++;
    e2_trap = vm_core_execute(&e2_vm);
    switch (e2_trap.type) {
    case TRAP_HALT:
        if (nl_verif_fuel == 0) return 0;           /* budget stop after one instruction */
        e2_done = 1; return 1;                      /* OP_HALT */
    case TRAP_NONE: return 0;                       /* RET from the outermost frame */
    case TRAP_PRINT:
        val_print(e2_trap.data.print.value, stdout);
        if (e2_trap.data.print.newline) fprintf(stdout, "\n");
        vm_release(&e2_vm.heap, e2_trap.data.print.value);
        return 0;
    case TRAP_ASSERT: {
        int ok = val_truthy(e2_trap.data.assert_check.condition);
        vm_release(&e2_vm.heap, e2_trap.data.assert_check.condition);
        if (!ok) { e2_err = VM_ERR_ASSERT_FAILED; return 1; }
        return 0; }
    case TRAP_ERROR: e2_err = e2_trap.data.error.code ? (int)e2_trap.data.error.code : -2; return 1;
    default: e2_err = -1; return 1;
    }
}

/* vm_call_function's prologue */
static void e2_enter(uint32_t fn_idx, const NanoValue *args, int argc) {
    const NvmFunctionEntry *fn = &e2_fns[fn_idx];
    uint32_t base = e2_vm.stack_size;
    for (int i = 0; i < argc; i++) e2_stack[e2_vm.stack_size++] = args[i];
    static const NanoValue Z;
    for (int i = argc; i < fn->local_count; i++) { e2_stack[e2_vm.stack_size] = Z; e2_stack[e2_vm.stack_size].tag = TAG_VOID; e2_vm.stack_size++; }
    VmCallFrame *fr = &e2_vm.frames[e2_vm.frame_count++];
    fr->fn_idx = fn_idx; fr->return_ip = e2_vm.ip; fr->stack_base = base; fr->local_count = fn->local_count; fr->closure = 0; fr->module = &e2_mod;
    e2_vm.current_fn = fn_idx; e2_vm.ip = fn->code_offset;
}
#endif
