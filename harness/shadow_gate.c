/* C06: eval.c's run_shadow_tests and AST_ASSERT handling on harness-built ASTs.  The program has NSHADOW
 * shadow blocks (a non-shadow item between them); each body is a block of NASSERT assert statements whose
 * conditions are boolean literals with SYMBOLIC values (NEST=1 wraps the last assert of each body in
 * `if true { ... }`).  The real evaluator runs the bodies.  Oracle: the result is true iff every condition
 * is true - whatever the position, count and nesting of the false ones; evaluation continues after a failure. */
#include "verif.h"
#include <stdlib.h>
#include <stdio.h>
int verif_abort_flag;
int nondet_int(void);
#ifndef REPLAY
int fprintf(FILE *f, const char *fmt, ...) { (void)f; (void)fmt; return 0; }
int printf(const char *fmt, ...) { (void)fmt; return 0; }
int fflush(FILE *f) { (void)f; return 0; }
int dup(int fd) { (void)fd; return 9; }
int dup2(int a, int b) { (void)a; return b; }
int open(const char *p, int fl, ...) { (void)p; (void)fl; return 8; }
int close(int fd) { (void)fd; return 0; }
char *getenv(const char *n) { (void)n; return NULL; }
void exit(int c) { (void)c; __CPROVER_assume(0); }
#endif
#include "eval.c"
#ifndef REPLAY
/* environment lookups (env.c) for an environment without functions; scalar constructors transcribed */
static Function verif_fn;      /* the function the shadow blocks belong to, as the type checker leaves it (set up in harness()) */
Function *env_get_function(Environment *e, const char *n) { (void)e; return (n && n[0] == 'f' && n[1] == 0) ? &verif_fn : NULL; }
static Symbol verif_syms[4];
void env_define_var(Environment *e, const char *name, Type type, bool is_mut, Value value) {      /* env.c's append, without growth */
    if (!e->symbols) e->symbols = verif_syms;
    __CPROVER_assert(e->symbol_count < 4, "HARNESS: symbol table model large enough");
    static const Symbol SZ; Symbol sy = SZ; sy.name = (char *)name; sy.type = type; sy.is_mut = is_mut; sy.value = value;
    e->symbols[e->symbol_count++] = sy;
}
static const Value VZ;
Value create_void(void) { Value r = VZ; r.type = VAL_VOID; return r; }
Value create_bool(bool b) { Value r = VZ; r.type = VAL_BOOL; r.as.bool_val = b; return r; }
Value create_int(long long v) { Value r = VZ; r.type = VAL_INT; r.as.int_val = v; return r; }
#endif
#ifndef NSHADOW
#define NSHADOW 2
#endif
#ifndef NASSERT
#define NASSERT 2
#endif
#ifndef NEST
#define NEST 0
#endif
/* The AST is a STATIC initialiser: pointers stored inside the node union by assignments at run time are not tracked by
 * CBMC's points-to analysis (union writes become byte updates; a compound literal of a smaller member is a byte update
 * of an arbitrary union), so every later node dereference would be "invalid object" and no verdict is reached.  Only
 * the truth values of the assert conditions are written at run time (scalars). */
static char fname[4] = "f";
static ASTNode conds[2][2];
static ASTNode asserts[2][2] = {
    { { .type = AST_ASSERT, .line = 1, .as.assert = { .condition = &conds[0][0] } }, { .type = AST_ASSERT, .line = 2, .as.assert = { .condition = &conds[0][1] } } },
    { { .type = AST_ASSERT, .line = 11, .as.assert = { .condition = &conds[1][0] } }, { .type = AST_ASSERT, .line = 12, .as.assert = { .condition = &conds[1][1] } } } };
#if NEST
static ASTNode truelit[2] = { { .type = AST_BOOL, .as.bool_val = true }, { .type = AST_BOOL, .as.bool_val = true } };
static ASTNode *innerstmts[2][1] = { { &asserts[0][NASSERT - 1] }, { &asserts[1][NASSERT - 1] } };
static ASTNode inner[2] = { { .type = AST_BLOCK, .as.block = { .statements = innerstmts[0], .count = 1 } }, { .type = AST_BLOCK, .as.block = { .statements = innerstmts[1], .count = 1 } } };
static ASTNode ifs[2] = { { .type = AST_IF, .as.if_stmt = { .condition = &truelit[0], .then_branch = &inner[0] } }, { .type = AST_IF, .as.if_stmt = { .condition = &truelit[1], .then_branch = &inner[1] } } };
#define LAST(s) (&ifs[s])
#else
#define LAST(s) (&asserts[s][NASSERT - 1])
#endif
#ifndef PRELOOP
#define PRELOOP 0
#endif
#if PRELOOP
/* a loop in front of the assertions of every body: 1 = for i in (range 0 2) { break }, 2 = for ... { continue },
 * 3 = while true { break }.  The statements after the loop must still run. */
static char vname[2] = "i", rname[6] = "range";
static ASTNode n0 = { .type = AST_NUMBER, .as.number = 0 }, n2 = { .type = AST_NUMBER, .as.number = 2 }, ltrue = { .type = AST_BOOL, .as.bool_val = true };
static ASTNode *rargs[2] = { &n0, &n2 };
static ASTNode rcall = { .type = AST_CALL, .as.call = { .name = rname, .args = rargs, .arg_count = 2 } };
static ASTNode jump = { .type = (PRELOOP == 2 ? AST_CONTINUE : AST_BREAK) };
static ASTNode *lbstmts[1] = { &jump };
static ASTNode lbody = { .type = AST_BLOCK, .as.block = { .statements = lbstmts, .count = 1 } };
#if PRELOOP == 3
static ASTNode loop = { .type = AST_WHILE, .as.while_stmt = { .condition = &ltrue, .body = &lbody } };
#else
static ASTNode loop = { .type = AST_FOR, .as.for_stmt = { .var_name = vname, .range_expr = &rcall, .body = &lbody } };
#endif
#define NPRE 1
#define PRE &loop,
#else
#define NPRE 0
#define PRE
#endif
#if NASSERT == 2
static ASTNode *stmts[2][3] = { { PRE &asserts[0][0], LAST(0) }, { PRE &asserts[1][0], LAST(1) } };
#else
static ASTNode *stmts[2][3] = { { PRE LAST(0) }, { PRE LAST(1) } };
#endif
static ASTNode blocks[2] = { { .type = AST_BLOCK, .as.block = { .statements = stmts[0], .count = NASSERT + NPRE } }, { .type = AST_BLOCK, .as.block = { .statements = stmts[1], .count = NASSERT + NPRE } } };
static ASTNode shadows[2] = { { .type = AST_SHADOW, .as.shadow = { .function_name = fname, .body = &blocks[0] } }, { .type = AST_SHADOW, .as.shadow = { .function_name = fname, .body = &blocks[1] } } };
static ASTNode filler = { .type = AST_STRUCT_DEF };
#if NSHADOW == 2
static ASTNode *items[3] = { &shadows[0], &filler, &shadows[1] };
#define NITEMS 3
#else
static ASTNode *items[1] = { &shadows[0] };
#define NITEMS 1
#endif
static ASTNode prog = { .type = AST_PROGRAM, .as.program = { .items = items, .count = NITEMS } };
static Environment env;

void harness(void) {
    ND_ARR(uint8_t, in_c, NSHADOW * NASSERT);
    static uint8_t in_cv[NSHADOW * NASSERT];      /* the outcome vector, written so that it appears in the trace */
    int all = 1;
    for (int s = 0; s < NSHADOW; s++)
        for (int k = 0; k < NASSERT; k++) {
            in_cv[s * NASSERT + k] = in_c[s * NASSERT + k] & 1;
            conds[s][k] = (ASTNode){ .type = AST_BOOL, .as.bool_val = in_cv[s * NASSERT + k] };
            if (!in_cv[s * NASSERT + k]) all = 0;
        }
    /* typechecker.c second pass: `func->shadow_test = item->as.shadow.body` for every shadow item in order (the last one stays) */
    verif_fn.name = fname; verif_fn.body = NULL; verif_fn.shadow_test = &blocks[NSHADOW - 1];
    bool verbose = nondet_int() & 1;
    bool r = run_shadow_tests(&prog, &env, verbose);
    CHECK(r == (all != 0), "run_shadow_tests succeeds iff every executed assertion held (any position, count, nesting)");
    CHECK(!g_in_shadow_tests, "shadow mode is left afterwards");
    if (r) WITNESS("all passed"); else WITNESS("some failed");
}
