/* C09 (lexer kernel): the scanning loop of lexer.c tokenize() - the code that walks the source buffer with hand-written
 * index arithmetic (string / character literals with escapes, comments, numbers, identifiers, two-character operator
 * look-ahead) - on EVERY NUL-terminated input that starts with the concrete byte FIRST and continues with LEN arbitrary
 * bytes.  Asserted: every read of the source stays inside the buffer (CBMC pointer checks; the buffer is exactly
 * LEN+2 bytes), every copy fits the memory obtained for it, the loop ends within the unwinding bound, the result is
 * NULL or an array of 1..LEN+2 tokens ending in TOKEN_EOF.
 * Cut: create_token (copies the token text with strdup) and keyword_or_identifier (a strcmp chain) are replaced by
 * stubs - they receive NUL-terminated copies and do no index arithmetic on the source (TU compiled with -Dstatic=). */
#include "verif.h"
#include <stdlib.h>
#include <stdio.h>
#include "nanolang.h"
int verif_abort_flag;
#ifndef REPLAY
#include "ctype_model.h"
#endif
#ifndef REPLAY
int fprintf(FILE *f, const char *fmt, ...) { (void)f; (void)fmt; return 0; }
int snprintf(char *s, size_t n, const char *f, ...) { (void)f; if (n) s[0] = 0; return 0; }
TokenType nondet_tt(void);
Token create_token(TokenType type, const char *value, int line, int column) {
    static const Token Z; Token t = Z;
    if (value) { size_t k = 0; while (value[k]) k++; (void)k; }      /* the text handed over must be a terminated string */
    t.token_type = type; t.line = line; t.column = column; return t;
}
TokenType keyword_or_identifier(const char *str) { size_t k = 0; while (str[k]) k++; TokenType r = nondet_tt(); ASSUME(r != TOKEN_EOF); return r; }
#endif
#ifndef LEN
#define LEN 3
#endif
void harness(void) {
    ND_ARR(uint8_t, in_src, LEN + 2);
    char src[LEN + 2];
    for (int i = 0; i < LEN + 1; i++) src[i] = (char)in_src[i];
    src[0] = FIRST;
    src[LEN + 1] = 0;
    int count = -1;
    Token *t = tokenize(src, &count);
    if (!t) { WITNESS("lexer rejected"); return; }
    CHECK(count >= 1 && count <= LEN + 2, "token count is between 1 and length+1");
    CHECK(t[count - 1].token_type == TOKEN_EOF, "token array ends with EOF");
    WITNESS("lexer accepted");
}
