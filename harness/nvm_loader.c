/* C13 (loader) / C12 (all-or-nothing): nvm_deserialize on an arbitrary buffer of exactly SIZE bytes.
 * Structure concrete: NSEC sections of types SECT0..SECT2 (magic, version, count assigned as constants);
 * everything else symbolic: flags, entry, pool offset/length, stored checksum, every directory
 * offset/size, every body byte.  CRC abstract (any value): covers well-checksummed hostile files. */
#include "nvm_common.h"
int verif_abort_flag;
static void put32(uint8_t *p, uint32_t v) { p[0] = v & 0xFF; p[1] = (v >> 8) & 0xFF; p[2] = (v >> 16) & 0xFF; p[3] = (v >> 24) & 0xFF; }
static uint32_t get32(const uint8_t *p) { return (uint32_t)p[0] | ((uint32_t)p[1] << 8) | ((uint32_t)p[2] << 16) | ((uint32_t)p[3] << 24); }

void harness(void) {
#if SIZE > 0
    ND_ARR(uint8_t, in_buf, SIZE);
    uint8_t *buf = in_buf;      /* a local array of exactly SIZE bytes: out-of-bounds reads are caught, constants stay constants */
#if SIZE >= 32 && !defined(FREE_HEADER)
    buf[0] = 'N'; buf[1] = 'V'; buf[2] = 'M'; buf[3] = 1;
    put32(buf + 4, 1);
    put32(buf + 16, NSEC);
#if NSEC > 0 && SIZE >= 44
    put32(buf + 32, SECT0);
#ifdef SOFF0
    put32(buf + 36, SOFF0); put32(buf + 40, SSZ0);
#endif
#endif
#if NSEC > 1 && SIZE >= 56
    put32(buf + 44, SECT1);
#ifdef SOFF1
    put32(buf + 48, SOFF1); put32(buf + 52, SSZ1);
#endif
#endif
#if NSEC > 2 && SIZE >= 68
    put32(buf + 56, SECT2);
#ifdef SOFF2
    put32(buf + 60, SOFF2); put32(buf + 64, SSZ2);
#endif
#endif
#endif
    FIX_CRC(buf, SIZE);
#else
    uint8_t one[1]; uint8_t *buf = one;
#endif
    NvmModule *m = nvm_deserialize(buf, SIZE);
    if (!m) { WITNESS("rejected"); return; }
    WITNESS("accepted");
    /* a loaded module is internally consistent */
    CHECK(m->string_count <= m->string_capacity && m->function_count <= m->function_capacity &&
          m->code_size <= m->code_capacity && m->debug_count <= m->debug_capacity &&
          m->import_count <= m->import_capacity, "counts within capacities");
    CHECK(SIZE >= 32 + 12 * NSEC, "accepted file contains its whole section directory");
#if SIZE >= 32 + 12 * NSEC
    /* all-or-nothing: every section lies inside the file and was consumed completely */
    uint32_t fn_bytes = 0, dbg_bytes = 0, code_bytes = 0, imp_bytes = 0, str_bytes = 0, str_secs = 0;
    for (unsigned s = 0; s < NSEC; s++) {
        uint32_t ty = get32(buf + 32 + 12 * s), off = get32(buf + 36 + 12 * s), sz = get32(buf + 40 + 12 * s);
        CHECK((uint64_t)off + (uint64_t)sz <= SIZE, "accepted section lies inside the file (no 32-bit wrap)");
        if (ty == NVM_SECTION_FUNCTIONS) fn_bytes += sz;
        if (ty == NVM_SECTION_DEBUG) dbg_bytes += sz;
        if (ty == NVM_SECTION_CODE) code_bytes += sz;
        if (ty == NVM_SECTION_IMPORTS) imp_bytes += sz;
        if (ty == NVM_SECTION_STRINGS) { str_bytes += sz; str_secs++; }
    }
    CHECK(m->function_count * 18u == fn_bytes, "function section consumed completely (no partial entry dropped)");
    CHECK(m->debug_count * 8u == dbg_bytes, "debug section consumed completely");
    CHECK(m->code_size == code_bytes, "code section loaded completely");
    uint32_t isum = 0;
    for (unsigned i = 0; i < MAXITEMS; i++) if (i < m->import_count) isum += 11u + m->imports[i].param_count;
    CHECK(m->import_count <= MAXITEMS && isum == imp_bytes, "import section consumed completely");
    if (str_secs == 1) {
        uint32_t ssum = 0; int distinct = 1;
        for (unsigned i = 0; i < MAXITEMS; i++) if (i < m->string_count) ssum += 4u + m->string_lengths[i];
        /* the pool reader de-duplicates; only when the file's entries are pairwise distinct does the count tell */
        CHECK(m->string_count <= MAXITEMS && ssum <= str_bytes, "string pool entries lie inside the pool section");
#ifdef STRICT_STRINGS
        CHECK(ssum == str_bytes || m->string_count < STR_ENTRIES_DECLARED, "string pool consumed completely");
#endif
    }
#endif
    nvm_module_free(m);     /* CBMC checks double free / invalid free here */
}
