/* C10 (embedded wrapper): the main() that wrapper_gen.c generates (text obtained by running the repository's
 * write_wrapper_c natively at check time) with loader/VM replaced by stubs with symbolic outcomes.  Asserts the
 * wrapper's exit status equals the reference derivation used by nano_virt --run / nano_vm, and that global
 * initialisers (__init__) run exactly once per execution, as vm_execute already runs them. */
#include <stdio.h>
#include <stdlib.h>
#include <stdbool.h>
#include <string.h>
#include "nanoisa/nvm_format.h"
#include "nanovm/vm.h"
int verif_abort_flag;
int nondet_int(void);
static int o_vmresult, o_initresult, o_load_ok; static unsigned char o_tag; static long long o_i64;
static int g_init_runs, g_exec_runs;
static NvmModule g_mod; static NvmFunctionEntry g_fns[2];
NvmModule *nvm_deserialize(const uint8_t *d, uint32_t n) { (void)d; (void)n; g_mod.functions = g_fns; g_mod.function_count = 2; g_fns[0].name_idx = 0; g_fns[1].name_idx = 1; g_mod.import_count = 0; return o_load_ok ? &g_mod : NULL; }
const char *nvm_get_string(const NvmModule *m, uint32_t i) { (void)m; return i == 0 ? "__init__" : (i == 1 ? "main" : NULL); }
void nvm_module_free(NvmModule *m) { (void)m; }
void vm_init(VmState *vm, const NvmModule *m) { vm->module = m; vm->error_msg[0] = 0; }
void vm_destroy(VmState *vm) { (void)vm; }
VmResult vm_call_function(VmState *vm, uint32_t fn, NanoValue *a, uint16_t n) { (void)vm; (void)a; (void)n; if (fn == 0) g_init_runs++; return (VmResult)o_initresult; }
/* the real vm_execute runs __init__ itself before the entry point (vm.c) */
VmResult vm_execute(VmState *vm) { (void)vm; g_exec_runs++; g_init_runs++; return (VmResult)o_vmresult; }
NanoValue vm_get_result(VmState *vm) { (void)vm; static const NanoValue Z; NanoValue v = Z; v.tag = o_tag; v.as.i64 = o_i64; return v; }
const char *vm_error_string(VmResult r) { (void)r; return "err"; }
int fprintf(FILE *f, const char *fmt, ...) { (void)f; (void)fmt; return 0; }
#define main wrapper_main
#include WRAPPER_C
#undef main
void harness(void) {
    o_vmresult = nondet_int() & 15; o_initresult = nondet_int() & 15; o_load_ok = nondet_int() & 1; o_tag = (unsigned char)nondet_int(); o_i64 = (long long)nondet_int() * 65536 + nondet_int();
    char *argv[2] = { "w", 0 };
    int rc = wrapper_main(1, argv);
    if (!o_load_ok) { __CPROVER_assert(rc != 0 && g_exec_runs == 0, "a wrapper whose embedded module does not load fails without running anything"); __CPROVER_assert(0, "WITNESS: load failed"); return; }
    __CPROVER_assert(g_init_runs <= 1, "C10: global initialisers run once in the wrapper, as with nano_virt --run and nano_vm (vm_execute runs __init__ itself)");
    if (g_exec_runs == 1) {
        int ref = (o_vmresult != VM_OK) ? 1 : (o_tag == TAG_INT ? (int)o_i64 : 0);
        __CPROVER_assert(rc == ref, "C10: the wrapper's exit status is main's int result (1 on a run-time error)");
    } else {
        __CPROVER_assert(rc != 0, "C10: a wrapper that does not reach main reports failure");
    }
    __CPROVER_assert(0, "WITNESS: ran");
}
