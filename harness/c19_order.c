/* C19 (generated C, definition order): transpiler.c generate_struct_and_union_definitions_ordered() — the topological
 * sort that decides in which order struct / union typedefs are written into every generated C file — run TWICE on the
 * same environment.  The environment has NS structs (NF fields each) and NU unions (one variant, one field); which
 * fields are composite and which type each names is symbolic, so every dependency graph over NS+NU nodes (self
 * references, cycles, duplicate edges, dangling names) is covered.  CBMC gives malloc'd memory arbitrary contents, and
 * the two runs get independent contents: an order that depends on uninitialised memory makes the two emission
 * sequences differ.  The three emit_* functions are cut (bodies removed from the real TU, recording stubs here): the
 * subject is the order, not the text of one definition.
 * CBMC-only harness (the TU is compiled with -Dstatic= so that the static function is callable and its callees can be
 * cut); counterexamples are replayed on the real nanoc under two MALLOC_PERTURB_ values (checks/c19.py). */
#include "verif.h"
#include <stdlib.h>
#include "nanolang.h"
#ifdef FILL
/* FILL variant: every malloc result of the real TU (-Dmalloc=verif_malloc) is filled with one symbolic byte per run -
 * exactly what glibc's malloc.perturb tunable does, so a counterexample replays on the real nanoc_c.  Only graphs a
 * source file can express are explored here (named, defined field types). */
#undef malloc
void *malloc(size_t);
static uint8_t g_fill[2];
static int g_run;
void *verif_malloc(size_t n) {
    unsigned char *p = malloc(n); ASSUME(p != 0);
    for (size_t i = 0; i < 260; i++) if (i < n) p[i] = g_fill[g_run];
    CHECK(n <= 260, "HARNESS: fill model covers the whole allocation");
    return p;
}
#define G_RUN_DEFINED
#endif
#ifndef NS
#define NS 3
#endif
#ifndef NU
#define NU 0
#endif
#define NF 2
#define NT (NS + NU)
typedef struct StringBuilder StringBuilder;
void generate_struct_and_union_definitions_ordered(Environment *env, StringBuilder *sb);

#ifndef G_RUN_DEFINED
static int g_run;
#endif
static int g_n[2];
static const void *g_seq[2][NT + 2];
static void rec(const void *p) { if (g_n[g_run] < NT + 2) g_seq[g_run][g_n[g_run]] = p; g_n[g_run]++; }
void emit_struct_definition_single(Environment *env, StringBuilder *sb, StructDef *sdef) { (void)env; (void)sb; rec(sdef); }
void emit_union_definition_single(Environment *env, StringBuilder *sb, UnionDef *udef) { (void)env; (void)sb; rec(udef); }
void emit_generic_union_instantiation(Environment *env, StringBuilder *sb, UnionDef *udef, GenericInstantiation *inst, const char *nm) { (void)env; (void)sb; (void)udef; (void)nm; rec(inst); }
void sb_append(StringBuilder *sb, const char *s) { (void)sb; (void)s; }

static char names[6][2] = {"A", "B", "C", "D", "E", "F"};
static StructDef sdefs[NS];
static Type s_ft[NS][NF];
static char *s_ftn[NS][NF];
static char *s_fn[NS][NF];
#if NU > 0
static UnionDef udefs[NU];
static int u_cnt[NU][1];
static Type u_ft1[NU][1]; static Type *u_ft[NU][1];
static char *u_ftn1[NU][1]; static char **u_ftn[NU][1];
static char *u_vn[NU][1];
#endif
static Environment env;
static struct { int dummy; } sb_obj;

void harness(void) {
    ND_ARR(uint8_t, in_comp, NT * NF);    /* is field f of type i composite? (0 no, 1 struct, 2 union, 3 composite without a recorded name) */
    ND_ARR(uint8_t, in_dep, NT * NF);     /* which type it names (NT = a name that is not defined) */
    for (int i = 0; i < NS; i++) {
        for (int f = 0; f < NF; f++) {
            uint8_t c = in_comp[i * NF + f], d = in_dep[i * NF + f];
            ASSUME(c <= 3 && d <= NT);
#ifdef FILL
            ASSUME(c <= 2 && d < NT && (c != 1 || d < NS) && (c != 2 || d >= NS));
#endif
            s_ft[i][f] = c == 0 ? TYPE_INT : (c == 2 ? TYPE_UNION : TYPE_STRUCT);
            s_ftn[i][f] = (c == 0 || c == 3) ? (char *)0 : names[d];
            s_fn[i][f] = names[f];
        }
        sdefs[i].name = names[i]; sdefs[i].field_count = NF; sdefs[i].field_types = s_ft[i]; sdefs[i].field_type_names = s_ftn[i]; sdefs[i].field_names = s_fn[i];
    }
#if NU > 0
    for (int u = 0; u < NU; u++) {
        uint8_t c = in_comp[(NS + u) * NF], d = in_dep[(NS + u) * NF];
        ASSUME(c <= 3 && d <= NT);
#ifdef FILL
        ASSUME(c <= 2 && d < NT && (c != 1 || d < NS) && (c != 2 || d >= NS));
#endif
        u_cnt[u][0] = 1; u_ft1[u][0] = c == 0 ? TYPE_INT : (c == 2 ? TYPE_UNION : TYPE_STRUCT); u_ft[u][0] = u_ft1[u];
        u_ftn1[u][0] = (c == 0 || c == 3) ? (char *)0 : names[d]; u_ftn[u][0] = u_ftn1[u]; u_vn[u][0] = names[5];
        udefs[u].name = names[NS + u]; udefs[u].variant_count = 1; udefs[u].variant_names = u_vn[u]; udefs[u].variant_field_counts = u_cnt[u];
        udefs[u].variant_field_types = u_ft[u]; udefs[u].variant_field_type_names = u_ftn[u];
    }
    env.unions = udefs; env.union_count = NU;
#endif
    env.structs = sdefs; env.struct_count = NS;
#ifdef FILL
    ND_ARR(uint8_t, in_fill, 2);
    g_fill[0] = in_fill[0]; g_fill[1] = in_fill[1];
#endif
    g_run = 0; generate_struct_and_union_definitions_ordered(&env, (StringBuilder *)&sb_obj);
    g_run = 1; generate_struct_and_union_definitions_ordered(&env, (StringBuilder *)&sb_obj);
    CHECK(g_n[0] == NT, "every struct and union definition is emitted exactly once (count)");
    for (int i = 0; i < NT; i++) for (int j = 0; j < NT; j++) if (i < j) CHECK(g_seq[0][i] != g_seq[0][j], "every struct and union definition is emitted exactly once (distinct)");
    CHECK(g_n[1] == g_n[0], "C19: two runs on the same environment emit the same number of definitions");
    for (int i = 0; i < NT; i++) CHECK(g_seq[1][i] == g_seq[0][i], "C19: the order of struct/union definitions is a function of the environment (not of uninitialised memory)");
    /* a type embedded by value comes first when the graph allows it: direct edge d -> i with no path back is implied by
     * the sort; checked here only for the 2-node case to keep the oracle obviously right */
    WITNESS("ordering done");
}
