/* Shared by the nvm_format harnesses: CRC abstraction + module comparison. */
#ifndef NVM_COMMON_H
#define NVM_COMMON_H
#include "verif.h"
#include <stdlib.h>
#include "nvm_format.h"

#ifndef CRC_LOG_BYTES
#define CRC_LOG_BYTES 160
#endif

#if defined(CRC_ABSTRACT) && !defined(REPLAY)
/* nvm_crc32 as an uninterpreted function: equal (length, bytes) => equal result, anything else => any
 * value (so "the attacker recomputed the checksum" and "the checksum happens to collide" are both
 * covered).  The real body is removed from nvm_format.c's goto object by the runner. */
static struct { uint32_t n; uint32_t v; uint8_t b[CRC_LOG_BYTES]; } crc_log[4];
static int crc_calls;
uint32_t nondet_u32(void);
uint32_t nvm_crc32(const uint8_t *d, uint32_t n) {
    uint32_t v = nondet_u32();
    for (int c = 0; c < crc_calls && c < 4; c++) {
        if (crc_log[c].n == n) {
            int same = 1;
            for (uint32_t i = 0; i < CRC_LOG_BYTES; i++) if (i < n && crc_log[c].b[i] != d[i]) same = 0;
            if (same) v = crc_log[c].v;
        }
    }
    if (crc_calls < 4) {
        crc_log[crc_calls].n = n; crc_log[crc_calls].v = v;
        for (uint32_t i = 0; i < CRC_LOG_BYTES; i++) crc_log[crc_calls].b[i] = (i < n) ? d[i] : 0;
        crc_calls++;
    }
    return v;
}
#define FIX_CRC(buf, size) ((void)0)
#else
/* real checksum (native replay, or jobs with the CRC as subject): harness-made buffers get the
 * checksum a writer/attacker would store. */
static void fix_crc(uint8_t *buf, uint32_t size) {
    if (size >= 32) { uint32_t c = nvm_crc32(buf + 32, size - 32);
        buf[28] = c & 0xFF; buf[29] = (c >> 8) & 0xFF; buf[30] = (c >> 16) & 0xFF; buf[31] = (c >> 24) & 0xFF; }
}
#define FIX_CRC(buf, size) fix_crc(buf, size)
#endif

static int module_equal(const NvmModule *a, const NvmModule *b, int max_items, int max_bytes) {
    if (a->header.flags != b->header.flags) return 0;
    if (a->header.entry_point != b->header.entry_point) return 0;
    if (a->string_count != b->string_count) return 0;
    for (int i = 0; i < max_items; i++) if ((uint32_t)i < a->string_count) {
        if (a->string_lengths[i] != b->string_lengths[i]) return 0;
        for (int k = 0; k < max_bytes; k++) if ((uint32_t)k < a->string_lengths[i] && a->strings[i][k] != b->strings[i][k]) return 0;
        if (b->strings[i][b->string_lengths[i]] != 0) return 0;
    }
    if (a->function_count != b->function_count) return 0;
    for (int i = 0; i < max_items; i++) if ((uint32_t)i < a->function_count) {
        const NvmFunctionEntry *x = &a->functions[i], *y = &b->functions[i];
        if (x->name_idx != y->name_idx || x->arity != y->arity || x->code_offset != y->code_offset ||
            x->code_length != y->code_length || x->local_count != y->local_count || x->upvalue_count != y->upvalue_count) return 0;
    }
    if (a->code_size != b->code_size) return 0;
    for (int k = 0; k < max_bytes; k++) if ((uint32_t)k < a->code_size && a->code[k] != b->code[k]) return 0;
    if (a->debug_count != b->debug_count) return 0;
    for (int i = 0; i < max_items; i++) if ((uint32_t)i < a->debug_count) {
        if (a->debug_entries[i].bytecode_offset != b->debug_entries[i].bytecode_offset) return 0;
        if (a->debug_entries[i].source_line != b->debug_entries[i].source_line) return 0;
    }
    if (a->import_count != b->import_count) return 0;
    for (int i = 0; i < max_items; i++) if ((uint32_t)i < a->import_count) {
        const NvmImportEntry *x = &a->imports[i], *y = &b->imports[i];
        if (x->module_name_idx != y->module_name_idx || x->function_name_idx != y->function_name_idx ||
            x->param_count != y->param_count || x->return_type != y->return_type) return 0;
        for (int k = 0; k < max_items; k++) if (k < x->param_count) {
            if (!a->import_param_types[i] || !b->import_param_types[i]) return 0;
            if (a->import_param_types[i][k] != b->import_param_types[i][k]) return 0;
        }
    }
    return 1;
}
#endif
