/* C18 (+ C13 "verified before executed", C17 wire framing): the daemon's per-client session
 * (vmd_server.c: client_thread, socket_write_cookie; vmd_protocol.c: all) and its accept loop
 * (vmd_server_run) under an arbitrary client / kernel: every read/write/poll/accept/pthread_create result is
 * symbolic.  Module loading, verification and execution are environment stubs with symbolic outcomes and
 * ghosts (the loader, verifier and VM are the subjects of C12/C13). */
#include "verif.h"
#include <stdlib.h>
#include <stdbool.h>
#include <errno.h>
#include <unistd.h>
#include <stdio.h>
#include <poll.h>
#include <pthread.h>
#include <sys/socket.h>
int verif_abort_flag;

#define MAXFD 16
static int g_fd_open[MAXFD];
static int g_bad_close, g_io_on_closed;
static int g_partial_budget = 2, g_eintr_budget = 1;
static int g_verified_ok, g_exec_without_verify, g_executed, g_module_live, g_vm_live, g_module_leak;
static int g_out_frames, g_exit_frames, g_err_frames, g_frames_after_exit;
static int g_polls, g_loop_exit_reason_ok, g_thread_started;
static uint8_t g_first_type; static int g_have_type;

int nondet_int(void); size_t nondet_size(void); unsigned char nondet_uchar(void);

#ifndef REPLAY
int close(int fd) { if (fd < 0 || fd >= MAXFD || !g_fd_open[fd]) { g_bad_close = 1; return -1; } g_fd_open[fd] = 0; return 0; }
ssize_t read(int fd, void *buf, size_t n) {
    if (fd < 0 || fd >= MAXFD || !g_fd_open[fd]) { g_io_on_closed = 1; errno = EBADF; return -1; }
    __CPROVER_assert(__CPROVER_w_ok(buf, n), "read(): destination buffer holds the requested byte count");
    int k = nondet_int();
    if (k == 0) return 0;
    if (k == 1) { errno = ECONNRESET; return -1; }
    if (k == 2 && g_eintr_budget > 0) { g_eintr_budget--; errno = EINTR; return -1; }
    size_t r = n;
    if (k == 3 && g_partial_budget > 0 && n > 1) { g_partial_budget--; r = nondet_size(); __CPROVER_assume(r >= 1 && r < n); }
    if (n > 0) __CPROVER_havoc_slice(buf, r);
    return (ssize_t)r;
}
ssize_t write(int fd, const void *buf, size_t n) {
    if (fd < 0 || fd >= MAXFD || !g_fd_open[fd]) { g_io_on_closed = 1; errno = EBADF; return -1; }
    __CPROVER_assert(__CPROVER_r_ok(buf, n), "write(): source buffer holds the byte count");
    int k = nondet_int();
    if (k == 1) { errno = EPIPE; return -1; }                         /* client went away */
    if (k == 2 && g_eintr_budget > 0) { g_eintr_budget--; errno = EINTR; return -1; }
    if (n == 8) {   /* a frame header is accepted by the kernel (at least partly): classify it (version, type, flags16, len32) */
        unsigned char t = ((const unsigned char *)buf)[1];
        if (g_exit_frames > 0) g_frames_after_exit++;
        if (t == 0x10) g_out_frames++; else if (t == 0x11) g_exit_frames++; else if (t == 0x12) g_err_frames++;
    }
    if (k == 3 && g_partial_budget > 0 && n > 1) { g_partial_budget--; size_t r = nondet_size(); __CPROVER_assume(r >= 1 && r < n); return (ssize_t)r; }
    return (ssize_t)n;
}
int sigemptyset(sigset_t *s) { (void)s; return 0; }
int pthread_mutex_lock(pthread_mutex_t *m) { (void)m; return 0; }
int pthread_mutex_unlock(pthread_mutex_t *m) { (void)m; return 0; }
int snprintf(char *s, size_t n, const char *f, ...) { (void)f; if (n) s[0] = 0; return 0; }
int fprintf(FILE *f, const char *fmt, ...) { (void)f; (void)fmt; return 0; }
void perror(const char *s) { (void)s; }
/* stdio cookie streams */
typedef struct { void *cookie; cookie_io_functions_t fn; int open; int pending; } FakeFile;   /* pending: an unterminated partial line sits in the stdio buffer */
FILE *fopencookie(void *cookie, const char *mode, cookie_io_functions_t fn) {
    (void)mode; if (nondet_int() & 1) return NULL;
    FakeFile *f = malloc(sizeof(FakeFile)); __CPROVER_assume(f != 0); f->cookie = cookie; f->fn = fn; f->open = 1; f->pending = 0; return (FILE *)f;
}
int setvbuf(FILE *f, char *b, int m, size_t n) { (void)f; (void)b; (void)m; (void)n; return 0; }
static void fake_drain(FakeFile *f) { if (f->pending) { char tail[2] = { 'x', 'y' }; f->pending = 0; f->fn.write(f->cookie, tail, 2); } }
int fflush(FILE *fp) { if (fp) fake_drain((FakeFile *)fp); return 0; }
int fclose(FILE *fp) { FakeFile *f = (FakeFile *)fp; __CPROVER_assert(f->open, "stream closed once"); fake_drain(f); f->open = 0; int r = f->fn.close ? f->fn.close(f->cookie) : 0; free(f); return r; }
#endif

#include "vm.h"
#include "../nanoisa/verifier.h"
/* ---- environment: loader / verifier / VM with symbolic outcomes ---- */
static NvmModule the_module;
NvmModule *nvm_deserialize(const uint8_t *d, uint32_t n) {
#ifndef REPLAY
    __CPROVER_assert(__CPROVER_r_ok(d, n), "loader is handed a buffer that really holds the announced payload");
#endif
    if (nondet_int() & 1) return NULL;
    g_module_live++; g_verified_ok = 0; return &the_module;
}
void nvm_module_free(NvmModule *m) { (void)m; g_module_live--; }
NvmVerifyResult nvm_verify(const NvmModule *m) { (void)m; NvmVerifyResult r; r.ok = (nondet_int() & 1); r.error_msg[0] = 0; g_verified_ok = r.ok; return r; }
void vm_init(VmState *vm, const NvmModule *m) { vm->module = m; vm->output = NULL; vm->isolate_ffi = false; vm->error_msg[0] = 0; g_vm_live++; }
void vm_destroy(VmState *vm) { (void)vm; g_vm_live--; }
void vm_ffi_cop_stop(VmState *vm) { (void)vm; }
const char *vm_error_string(VmResult r) { (void)r; return "err"; }
#ifndef REPLAY
VmResult vm_execute(VmState *vm) {
    g_executed++;
    if (!g_verified_ok) g_exec_without_verify = 1;
    /* the program prints up to two chunks through the socket-backed stream */
    FakeFile *f = (FakeFile *)vm->output;
    for (int c = 0; c < 2; c++) if (f && (nondet_int() & 1)) {
        char chunk[4]; size_t len = nondet_size(); __CPROVER_assume(len >= 1 && len <= 4);
        f->fn.write(f->cookie, chunk, len);
    }
    if (f && (nondet_int() & 1)) f->pending = 1;      /* the program's last print did not end in a newline: line-buffered stdio holds it */
    vm->error_msg[0] = (char)nondet_uchar();
    return (VmResult)(nondet_int() & 15);
}
#endif


#include "vmd_protocol.c"
#include "vmd_server.c"

#if MODE == 1
/* accept loop environment */
static int g_shutdown_by_env;
int socket(int a, int b, int c) { (void)a; (void)b; (void)c; g_fd_open[3] = 1; return 3; }
int bind(int fd, const struct sockaddr *a, socklen_t l) { (void)fd; (void)a; (void)l; return 0; }
int listen(int fd, int n) { (void)fd; (void)n; return 0; }
int unlink(const char *p) { (void)p; return 0; }
int chmod(const char *p, mode_t m) { (void)p; (void)m; return 0; }
FILE *fopen(const char *p, const char *m) { (void)p; (void)m; FakeFile *f = malloc(sizeof(FakeFile)); __CPROVER_assume(f != 0); f->cookie = 0; f->fn.close = 0; f->fn.write = 0; f->open = 1; f->pending = 0; return (FILE *)f; }
int fscanf(FILE *f, const char *fmt, ...) { (void)f; (void)fmt; return 0; }
pid_t getpid(void) { return 42; }
uid_t getuid(void) { return 1000; }
int kill(pid_t p, int s) { (void)p; (void)s; return -1; }
int sigaction(int s, const struct sigaction *a, struct sigaction *o) { (void)s; (void)a; (void)o; return 0; }
int poll(struct pollfd *p, nfds_t n, int t) {
    (void)p; (void)n; (void)t;
    if (++g_polls > NPOLLS) { g_shutdown_by_env = 1; g_shutdown = 1; errno = EINTR; return -1; }
    int k = nondet_int();
    if (k == 0) { errno = EINTR; return -1; }
    if (k == 1) { errno = ENOMEM; g_loop_exit_reason_ok = 1; return -1; }    /* hard poll error: the loop may end */
    if (k == 2) { g_loop_exit_reason_ok = 1; return 0; }                    /* idle timeout: ends only when no client is active */
    return 1;
}
static int g_next_client_fd = 5;
int accept(int fd, struct sockaddr *a, socklen_t *l) {
    (void)fd; (void)a; (void)l;
    int k = nondet_int();
    if (k == 0) { errno = EINTR; return -1; }
    if (k == 1) { errno = EMFILE; return -1; }
    if (k == 2) { errno = ECONNABORTED; return -1; }
    if (k == 3) { errno = ENOMEM; return -1; }
    __CPROVER_assume(g_next_client_fd < MAXFD);
    int c = g_next_client_fd++; g_fd_open[c] = 1; return c;
}
int pthread_create(pthread_t *t, const pthread_attr_t *a, void *(*fn)(void *), void *arg) {
    (void)t; (void)a; (void)fn;
    if (nondet_int() & 1) return EAGAIN;
    /* the session thread owns ctx and the descriptor from here (its behaviour is MODE 0's subject) */
    int fd = *(int *)arg; free(arg); g_fd_open[fd] = 0; g_thread_started++; return 0;
}
int pthread_detach(pthread_t t) { (void)t; return 0; }
#endif

void harness(void) {
#if MODE == 0
    ND(int, in_active0); ASSUME(in_active0 >= 0 && in_active0 < 100);
    g_active_clients = in_active0;
    g_shutdown = 0;
    ClientCtx *ctx = malloc(sizeof(ClientCtx)); ASSUME(ctx != NULL);
    ctx->client_fd = 7; ctx->verbose = false; g_fd_open[7] = 1;
    client_thread(ctx);
    CHECK(!g_fd_open[7] && !g_bad_close, "the session's descriptor is closed exactly once");
    CHECK(!g_io_on_closed, "no I/O on the descriptor after it was closed");
    CHECK(g_active_clients == in_active0, "the active-client counter returns to its value before the session");
    CHECK(g_module_live == 0 && g_vm_live == 0, "module and VM state are released on every path");
    CHECK(!g_exec_without_verify, "a module is executed only after the verifier accepted it");
    CHECK(g_frames_after_exit == 0 && g_exit_frames <= 1, "the exit-code frame is the last frame of a session (all program output, incl. an unterminated last line, is sent before it)");
    CHECK(g_executed == 0 || g_exit_frames == 1 || g_io_on_closed == 0, "session bookkeeping");
    WITNESS("session done");
#else
    VmdServerConfig cfg; memset(&cfg, 0, sizeof cfg);
    cfg.foreground = false; cfg.verbose = false; cfg.idle_timeout_sec = 5;
    ND(int, in_active0); ASSUME(in_active0 >= 0 && in_active0 < 3);
    g_active_clients = in_active0; g_shutdown = 0;
    int rc = vmd_server_run(&cfg);
    (void)rc;
    CHECK(g_shutdown_by_env || g_loop_exit_reason_ok, "the accept loop ends only on shutdown, idle timeout or a hard poll error (never because accept/thread creation failed)");
    for (int f = 4; f < MAXFD; f++) CHECK(!g_fd_open[f], "no accepted descriptor is leaked by the accept loop");
    WITNESS("server loop done");
#endif
}
