#!/usr/bin/env python3
"""Common machinery for the solver-based checks (DESIGN.md section 2).

A check module builds a list of Job objects (one CBMC query each: the repository's real
translation units + a harness instantiated for one concrete *shape*, payload symbolic),
run_jobs() compiles them with goto-cc from /repo's current working tree, runs cbmc on up to
16 cores and classifies every job as proved / counterexample / vacuous / inconclusive.
Counterexamples are matched against known_findings.txt, replayed natively (harness compiled
with gcc + ASan/UBSan and the solver's input assignment), and only then reported.
"""
import os, sys, json, re, time, subprocess, shutil, fnmatch, hashlib, threading, signal, atexit
from dataclasses import dataclass, field
from concurrent.futures import ThreadPoolExecutor, as_completed

VERIF = os.path.dirname(os.path.dirname(os.path.abspath(__file__)))
REPO = os.environ.get('VERIF_REPO', '/repo')
GUARD = 'NANOLANG_VERIF'
NCPU = int(os.environ.get('VERIF_JOBS', '16'))
MAX_REPLAYS = int(os.environ.get('VERIF_MAX_REPLAYS', '4'))
BASE_CFLAGS = ['-std=c99', '-D_GNU_SOURCE', '-D' + GUARD]

_scratch = None


def scratch():
    global _scratch
    if _scratch is None:
        base = os.environ.get('VERIF_SCRATCH_BASE', '/var/tmp')
        _scratch = os.path.join(base, 'nanoverif.%d' % os.getpid())
        os.makedirs(_scratch, exist_ok=True)
        if not os.environ.get('VERIF_KEEP'):
            atexit.register(lambda: shutil.rmtree(_scratch, ignore_errors=True))
            # a terminated check (timeout(1), vp stop) must not leave its scratch behind: turn the signal into a normal exit
            if threading.current_thread() is threading.main_thread():
                for sg in (signal.SIGTERM, signal.SIGHUP):
                    try: signal.signal(sg, lambda n, f: sys.exit(128 + n))
                    except (ValueError, OSError): pass
    return _scratch


@dataclass
class Job:
    name: str                      # unique instance name (shape description)
    harness: str                   # harness C file, relative to /verif/harness (or absolute)
    sources: list = field(default_factory=list)   # repo-relative real TUs linked in
    extra_sources: list = field(default_factory=list)  # absolute paths (stubs, generated C)
    defines: dict = field(default_factory=dict)   # instance parameters (-D) for the harness TU
    src_defines: dict = field(default_factory=dict)  # -D for every TU (real sources too)
    entry: str = 'harness'
    unwind: int = None
    unwindset: list = field(default_factory=list)
    unwind_by_func: dict = field(default_factory=dict)  # {function: [bound of loop 0, loop 1, ...]} applied when the loop count matches
    flags: list = field(default_factory=list)     # extra cbmc flags
    overflow: bool = True          # signed-overflow check (off for language int arithmetic)
    remove_bodies: list = field(default_factory=list)
    unwinding_assertions: bool = True
    extra_cflags: list = field(default_factory=list)   # extra goto-cc flags for the harness TU
    gen_bodies: bool = False       # every function left without a body returns an arbitrary value (environment)
    src_flags: dict = field(default_factory=dict)     # {repo-relative source: [extra goto-cc flags]} (e.g. -include a modelling header)
    src_remove_bodies: list = field(default_factory=list)  # removed from the real TUs before linking (harness supplies the body)
    timeout: int = 120
    mem_gb: int = 10
    includes: list = field(default_factory=list)  # extra -I (absolute)
    smt: bool = False              # E4: export SMT2 and decide with z3 + cvc5
    smt_property: str = None
    replay: str = 'native'         # 'native' | 'none' | 'custom'
    replay_sources: list = None    # override sources for native replay
    replay_libs: list = field(default_factory=list)
    group: str = ''                # family name for evidence
    desc: dict = field(default_factory=dict)     # human description of the shape (evidence sample)
    object_bits: int = 12
    expect_witness: bool = True
    must_witness: list = field(default_factory=list)  # witness descriptions (substrings) that must be reachable
    pointer_overflow: bool = True
    # results
    status: str = None             # proved | cex | vacuous | inconclusive
    failed: list = None
    detail: str = ''
    wall: float = 0.0
    solver_s: float = 0.0
    nprops: int = 0
    witnesses: int = 0
    rss_mb: float = 0.0
    gb: str = None


_cc_lock = threading.Lock()
_cc_cache = {}


def sh(cmd, timeout=None, cwd=None, env=None, inp=None):
    try:
        p = subprocess.run(cmd, stdout=subprocess.PIPE, stderr=subprocess.PIPE, timeout=timeout,
                           cwd=cwd, env=env, input=inp)
        return p.returncode, p.stdout.decode('utf-8', 'replace'), p.stderr.decode('utf-8', 'replace')
    except subprocess.TimeoutExpired as e:
        return 124, (e.stdout or b'').decode('utf-8', 'replace'), 'TIMEOUT'


def incflags(job):
    fl = ['-I' + os.path.join(VERIF, 'stubs'), '-I' + os.path.join(VERIF, 'harness'),
          '-I' + os.path.join(REPO, 'src'), '-I' + os.path.join(REPO, 'src', 'nanoisa'),
          '-I' + os.path.join(REPO, 'src', 'nanovm'), '-I' + os.path.join(REPO, 'src', 'nanovirt'),
          '-I' + os.path.join(REPO, 'src', 'runtime')]
    fl += ['-I' + i for i in job.includes]
    return fl


def dflags(d):
    out = []
    for k, v in d.items():
        out.append('-D%s' % k if v is None else '-D%s=%s' % (k, v))
    return out


def compile_source_gb(src_abs, job):
    """goto-cc -c one real TU, cached per (file, defines)."""
    extra_fl = []
    for rel, fl in job.src_flags.items():
        if src_abs.endswith(rel): extra_fl = list(fl)
    key = (src_abs, tuple(sorted(job.src_defines.items())), tuple(job.includes), tuple(job.src_remove_bodies), tuple(extra_fl))
    with _cc_lock:
        ent = _cc_cache.get(key)
        if ent is None:
            ent = {'lock': threading.Lock(), 'out': None, 'err': None}
            _cc_cache[key] = ent
    with ent['lock']:
        if ent['out'] or ent['err']:
            return ent['out'], ent['err']
        h = hashlib.sha1(repr(key).encode()).hexdigest()[:12]
        out = os.path.join(scratch(), 'obj_%s_%s.gb' % (os.path.basename(src_abs).replace('.', '_'), h))
        cmd = ['goto-cc', '-c'] + BASE_CFLAGS + dflags(job.src_defines) + incflags(job) + extra_fl + [src_abs, '-o', out]
        rc, so, se = sh(cmd, timeout=300)
        if rc != 0:
            ent['err'] = 'goto-cc failed for %s:\n%s' % (src_abs, se[-3000:])
            return ent['out'], ent['err']
        for fn in job.src_remove_bodies:
            rc, so, se = sh(['goto-instrument', '--remove-function-body', fn, out, out], timeout=120)
            if rc != 0:
                ent['err'] = 'goto-instrument --remove-function-body %s failed: %s' % (fn, se[-1500:])
                return ent['out'], ent['err']
        ent['out'] = out
        return ent['out'], ent['err']


def harness_path(job):
    return job.harness if os.path.isabs(job.harness) else os.path.join(VERIF, 'harness', job.harness)


def build_job(job):
    objs = []
    for s in job.sources:
        o, err = compile_source_gb(os.path.join(REPO, s), job)
        if err:
            return err
        objs.append(o)
    for s in job.extra_sources:
        o, err = compile_source_gb(s, job)
        if err:
            return err
        objs.append(o)
    safe = re.sub(r'[^A-Za-z0-9_.-]', '_', job.name)
    gb = os.path.join(scratch(), 'job_%s.gb' % safe)
    cmd = (['goto-cc'] + BASE_CFLAGS + dflags(job.src_defines) + dflags(job.defines) + list(job.extra_cflags) + incflags(job)
           + [harness_path(job)] + objs + ['-o', gb])
    rc, so, se = sh(cmd, timeout=300)
    if rc != 0:
        return 'goto-cc failed for harness %s:\n%s' % (job.harness, se[-3000:])
    for fn in job.remove_bodies:
        # replace the body by "return an arbitrary value" (environment stub; listed in the evidence)
        rc, so, se = sh(['goto-instrument', '--remove-function-body', fn, gb, gb], timeout=120)
        if rc == 0:
            rc, so, se = sh(['goto-instrument', '--generate-function-body', '^' + fn + '$', '--generate-function-body-options', 'nondet-return', gb, gb], timeout=120)
        if rc != 0:
            return 'goto-instrument failed: ' + se[-2000:]
    if job.gen_bodies:
        # 'keep-libc': functions CBMC's C library models (strcmp, strlen, malloc, ...) keep their models; only the
        # program's own body-less functions (the environment) return arbitrary values
        pat = '.*' if job.gen_bodies is True else '^(?!(strcmp|strncmp|strlen|strnlen|strcpy|strncpy|strcat|strchr|strrchr|strstr|strdup|memcpy|memmove|memset|memcmp|malloc|calloc|realloc|free|abs|labs|llabs)$).*'
        rc, so, se = sh(['goto-instrument', '--generate-function-body', pat, '--generate-function-body-options', 'nondet-return', gb, gb], timeout=300)
        if rc != 0:
            return 'goto-instrument --generate-function-body failed: ' + se[-1500:]
    job.gb = gb
    # drop --unwindset entries that name functions absent from this binary (cbmc rejects unknown identifiers);
    # an absent function cannot be unwound at all, so nothing is lost
    if job.unwindset:
        rc, so, se = sh(['goto-instrument', '--list-goto-functions', gb], timeout=120)
        fns = set(re.findall(r'^(\S+) /\*', so, re.M))
        libc = {'memcmp', 'memcpy', 'memmove', 'memset', 'strlen', 'strcmp', 'strncmp', 'strcpy', 'strncpy', 'strchr', 'strdup', 'strcat', 'strstr', 'strtol', 'atoi', 'calloc', 'realloc'}
        keep = []
        for ent in job.unwindset:
            fn = ent.split(':')[0].split('.')[0]
            if fn in fns or fn in libc:
                keep.append(ent)
        job.unwindset = keep
    if job.unwind_by_func:
        loops = show_loops(gb)
        for fn, bounds in job.unwind_by_func.items():
            ids = loops.get(fn, [])
            if len(ids) == len(bounds):
                job.unwindset = list(job.unwindset) + ['%s:%d' % (i, b) for i, b in zip(ids, bounds)]
            else:
                job.detail += 'note: %s has %d loops, harness expected %d (generic unwind used) ' % (fn, len(ids), len(bounds))
    return None


def show_loops(gb):
    """{function: [loop ids in SOURCE ORDER]} (CBMC numbers loops in goto-program order, not source order)."""
    rc, so, se = sh(['goto-instrument', '--show-loops', gb], timeout=120)
    tmp = {}
    for m in re.finditer(r'^Loop (\S+?)\.(\d+):\s*\n\s*file \S+ line (\d+)', so + se, re.M):
        tmp.setdefault(m.group(1), []).append((int(m.group(3)), int(m.group(2))))
    return {fn: ['%s.%d' % (fn, n) for (ln, n) in sorted(v)] for fn, v in tmp.items()}


def cbmc_cmd(job, extra=()):
    cmd = ['cbmc', job.gb, '--function', job.entry] + (['--unwinding-assertions'] if job.unwinding_assertions else []) + [
           '--drop-unused-functions', '--no-malloc-may-fail', '--object-bits', str(job.object_bits),
           '--undefined-shift-check', '--div-by-zero-check']
    if job.pointer_overflow:
        cmd.append('--pointer-overflow-check')
    if not job.overflow:
        cmd.append('--no-signed-overflow-check')
    if job.unwind is not None:
        cmd += ['--unwind', str(job.unwind)]
    if job.unwindset:
        cmd += ['--unwindset', ','.join(job.unwindset)]
    cmd += job.flags
    cmd += list(extra)
    return cmd


def run_limited(cmd, timeout, mem_gb, outfile):
    """Run with address-space limit and wall timeout; returns (rc, wall, maxrss_mb)."""
    t0 = time.time()
    with open(outfile, 'wb') as f:
        def pre():
            import resource
            lim = int(mem_gb * (1 << 30))
            resource.setrlimit(resource.RLIMIT_AS, (lim, lim))
            os.setsid()
        p = subprocess.Popen(cmd, stdout=f, stderr=subprocess.STDOUT, preexec_fn=pre)
        try:
            _, status, ru = _wait4(p, timeout)
            rc = p.returncode
        except subprocess.TimeoutExpired:
            try:
                os.killpg(p.pid, signal.SIGKILL)
            except Exception:
                pass
            p.wait()
            return 124, time.time() - t0, 0.0
    return rc, time.time() - t0, ru


def _wait4(p, timeout):
    # poll so that we can collect rusage
    end = time.time() + timeout
    while True:
        pid, status, ru = os.wait4(p.pid, os.WNOHANG)
        if pid != 0:
            if os.WIFEXITED(status):
                p.returncode = os.WEXITSTATUS(status)
            else:
                p.returncode = -os.WTERMSIG(status)
            return pid, status, ru.ru_maxrss / 1024.0
        if time.time() > end:
            raise subprocess.TimeoutExpired(p.args, timeout)
        time.sleep(0.05)


def parse_json_ui(path):
    try:
        txt = open(path, 'r', errors='replace').read()
        data = json.loads(txt)
    except Exception as e:
        return None, 'unparsable cbmc output: %s' % e
    results, status, msgs = [], None, []
    for e in data:
        if not isinstance(e, dict):
            continue
        if 'result' in e:
            results = e['result']
        elif 'cProverStatus' in e:
            status = e['cProverStatus']
        elif e.get('messageType') == 'ERROR':
            msgs.append(e.get('messageText', ''))
    return {'results': results, 'status': status, 'errors': msgs, 'raw': data}, None


def parse_text(path):
    """Parse cbmc's plain-text result list: '[id] line N description: STATUS' under 'file function f' headers."""
    try:
        txt = open(path, 'r', errors='replace').read()
    except Exception as e:
        return None, str(e)
    status = None
    if 'VERIFICATION SUCCESSFUL' in txt: status = 'success'
    elif 'VERIFICATION FAILED' in txt: status = 'failure'
    results, cur_file, cur_fn = [], '?', ''
    for line in txt.splitlines():
        m = re.match(r'^(\S.*) function (\S+)$', line)
        if m:
            cur_file, cur_fn = m.group(1), m.group(2); continue
        m = re.match(r'^\[(\S+)\] (?:line (\d+) )?(.*): (SUCCESS|FAILURE|UNKNOWN|ERROR)$', line)
        if m:
            results.append({'property': m.group(1), 'description': m.group(3), 'status': m.group(4),
                            'sourceLocation': {'file': cur_file, 'line': m.group(2) or '?', 'function': cur_fn}})
    if '(error' in txt or 'CONVERSION ERROR' in txt or 'PARSING ERROR' in txt:
        status = None
    return {'results': results, 'status': status}, None


def is_witness(r):
    return (r.get('description') or '').startswith('WITNESS')


def run_one(job):
    t0 = time.time()
    err = build_job(job)
    if err:
        job.status, job.detail = 'inconclusive', err
        return job
    if job.smt:
        return run_one_smt(job, t0)
    out = os.path.join(scratch(), os.path.basename(job.gb) + '.out')
    rc, wall, rss = run_limited(cbmc_cmd(job), job.timeout, job.mem_gb, out)
    job.wall, job.rss_mb = time.time() - t0, rss
    job.solver_s = wall
    if rc == 124:
        job.status, job.detail = 'inconclusive', 'timeout after %ds' % job.timeout
        return job
    parsed, perr = parse_text(out)
    if perr or parsed['status'] is None:
        tail = open(out, 'r', errors='replace').read()[-1500:]
        job.status, job.detail = 'inconclusive', 'cbmc rc=%s %s\n%s' % (rc, perr or 'no verdict (out of memory / error)', tail)
        return job
    res = parsed['results']
    job.nprops = len(res)
    bad = [r for r in res if r['status'] not in ('SUCCESS', 'FAILURE')]
    anyfail = [r for r in res if r['status'] == 'FAILURE' and not is_witness(r)]
    if bad and not anyfail:
        job.status, job.detail = 'inconclusive', 'property status %s' % bad[0]['status']
        return job
    wit = [r for r in res if is_witness(r)]
    real_fail = [r for r in res if r['status'] == 'FAILURE' and not is_witness(r)]
    reached = [r for r in wit if r['status'] == 'FAILURE']
    job.witnesses = len(reached)
    vac = []
    for mw in job.must_witness:
        if not any(mw in (r.get('description') or '') for r in reached):
            vac.append({'description': 'required witness not reachable: ' + mw})
    if job.expect_witness and not reached:
        vac.append({'description': 'no witness reachable at all (of %d)' % len(wit)})
    harness_lim = [r for r in real_fail if (r.get('description') or '').startswith('HARNESS')]
    if harness_lim:
        job.status, job.detail = 'inconclusive', 'harness limit: ' + harness_lim[0]['description']
    elif real_fail:
        job.status = 'cex'
        job.failed = [{'property': r['property'], 'description': r.get('description', ''),
                       'loc': '%s:%s' % (r.get('sourceLocation', {}).get('file', '?'), r.get('sourceLocation', {}).get('line', '?')),
                       'function': r.get('sourceLocation', {}).get('function', '')} for r in real_fail]
    elif vac:
        job.status = 'vacuous'
        job.detail = '; '.join(r.get('description') for r in vac)
    else:
        job.status = 'proved'
    return job


def run_one_smt(job, t0):
    """E4: export the VC of one property as SMT2, decide with z3 and cvc5 (answers must agree)."""
    smt = os.path.join(scratch(), os.path.basename(job.gb) + '.smt2')
    extra = ['--smt2', '--outfile', smt]
    if job.smt_property and not re.match(r'^[A-Za-z_][A-Za-z0-9_]*\.[a-z_]+\.\d+$', job.smt_property):
        # resolve a description substring to the property identifier
        rc, so, se = sh(cbmc_cmd(job, ['--show-properties']), timeout=120)
        pid = None
        cur = None
        for line in so.splitlines():
            m = re.match(r'^Property (\S+):', line)
            if m: cur = m.group(1)
            elif cur and job.smt_property in line:
                pid = cur; break
        if not pid:
            job.status, job.detail = 'inconclusive', 'could not resolve property "%s"' % job.smt_property
            return job
        job.smt_property = pid
    if job.smt_property:
        extra += ['--property', job.smt_property]
    rc, so, se = sh(cbmc_cmd(job, extra), timeout=job.timeout)
    if not os.path.exists(smt):
        job.status, job.detail = 'inconclusive', 'smt export failed rc=%s %s' % (rc, (so + se)[-1500:])
        return job
    txt = open(smt).read().replace('(set-logic QF_AUFBV)', '(set-logic ALL)')
    cs = txt.find('(check-sat)')
    if cs >= 0:
        txt = txt[:cs] + '(check-sat)\n'      # CBMC appends (get-value ...) commands that are errors after unsat
    open(smt, 'w').write(txt)
    answers = {}
    t1 = time.time()
    for solver in (['z3', smt], ['cvc5', '--lang', 'smt2', smt]):
        rc, so, se = sh(solver, timeout=job.timeout)
        first = (so.strip().splitlines() or ['?'])[0].strip()
        if '(error' in so or '(error' in se or first not in ('sat', 'unsat'):
            answers[solver[0]] = 'error:' + (so + se)[:200] if rc != 124 else 'timeout'
        else:
            answers[solver[0]] = first
    job.solver_s = time.time() - t1
    job.wall = time.time() - t0
    vals = set(answers.values())
    job.nprops = 1
    decided = [a for a in answers.values() if a in ('sat', 'unsat')]
    if len(set(decided)) == 2:
        job.status, job.detail = 'inconclusive', 'solvers disagree: %s' % answers
    elif not decided:
        job.status, job.detail = 'inconclusive', 'no solver decided: %s' % answers
    elif decided[0] == 'unsat':
        job.status = 'proved'
        job.detail = 'smt: %s' % answers
        job.witnesses = 0
    else:
        job.status = 'cex'
        job.failed = [{'property': job.smt_property or '?', 'description': 'SMT: ' + (job.smt_property or ''), 'loc': '?', 'function': ''}]
    return job


def get_trace_inputs(job, prop):
    """Re-run cbmc for one failed property with --trace and collect the assignment to the harness inputs
    (variables named in_*)."""
    out = os.path.join(scratch(), os.path.basename(job.gb) + '.trace.txt')
    rc, wall, rss = run_limited(cbmc_cmd(job, ['--trace', '--property', prop]), job.timeout * 2, job.mem_gb, out)
    try:
        txt = open(out, 'r', errors='replace').read()
    except Exception:
        return None
    if 'Trace for' not in txt and 'Counterexample' not in txt:
        return None
    inputs = {}
    for line in txt.splitlines():
        m = re.match(r'^\s+(in_[A-Za-z0-9_]+)((?:\[\d+l{0,2}\])*)((?:\.[A-Za-z0-9_]+)*)=(.*)$', line)
        if not m:
            continue
        base, idx, mem, rhs = m.group(1), re.sub(r'l+\]', ']', m.group(2)), m.group(3), m.group(4)
        b = re.search(r'\(([01{}, ]+)\)\s*$', rhs)
        if not b:
            continue
        bits = b.group(1)
        if '{' in bits:
            parts = [x.strip() for x in bits.replace('{', '').replace('}', '').split(',') if x.strip()]
            for i, pb in enumerate(parts):
                pb = pb.replace(' ', '')
                if pb and set(pb) <= {'0', '1'}:
                    inputs['%s%s[%d]%s' % (base, idx, i, mem)] = int(pb, 2)
        else:
            pb = bits.replace(' ', '')
            if pb:
                inputs['%s%s%s' % (base, idx, mem)] = int(pb, 2)
    return inputs


def _collect(inputs, lhs, val):
    if 'elements' in val:
        for el in val['elements']:
            _collect(inputs, '%s[%d]' % (lhs, el['index']), el['value'])
    elif 'members' in val:
        for mb in val['members']:
            _collect(inputs, '%s.%s' % (lhs, mb['name']), mb['value'])
    elif 'binary' in val:
        inputs[lhs] = int(val['binary'], 2)   # raw bit pattern, unsigned
    elif val.get('name') == 'pointer':
        pass
    elif 'data' in val:
        d = val['data']
        if d in ('TRUE', 'FALSE'):
            inputs[lhs] = 1 if d == 'TRUE' else 0


def native_replay(job, prop, inputs, outdir):
    """Compile the same harness natively (gcc, ASan+UBSan, -DREPLAY) against the real sources and run it
    on the solver's input assignment.  Returns (reproduced: bool, info: str)."""
    os.makedirs(outdir, exist_ok=True)
    inp = os.path.join(outdir, 'inputs.txt')
    with open(inp, 'w') as f:
        for k in sorted(inputs):
            f.write('%s %x\n' % (k, inputs[k]))
    exe = os.path.join(scratch(), 'replay_' + re.sub(r'[^A-Za-z0-9_.-]', '_', job.name))
    srcs = job.replay_sources if job.replay_sources is not None else job.sources
    cmd = (['gcc', '-g', '-O0', '-fsanitize=address,undefined', '-fno-sanitize-recover=undefined', '-w', '-DREPLAY',
            '-DVERIF_ENTRY=' + job.entry]
           + BASE_CFLAGS + dflags(job.src_defines) + dflags(job.defines) + incflags(job)
           + [harness_path(job), os.path.join(VERIF, 'stubs', 'replay_main.c')]
           + [os.path.join(REPO, s) for s in srcs] + list(job.extra_sources) + ['-o', exe, '-lm'] + job.replay_libs)
    rc, so, se = sh(cmd, timeout=300)
    with open(os.path.join(outdir, 'cmd.txt'), 'w') as f:
        f.write('# failed solver property: %s\n# build:\n%s\n# run:\n%s %s\n' % (prop, ' '.join(cmd), exe, inp))
    if rc != 0:
        open(os.path.join(outdir, 'output.txt'), 'w').write('replay build failed:\n' + se[-4000:])
        return False, 'replay build failed'
    env = dict(os.environ, ASAN_OPTIONS='detect_leaks=0:abort_on_error=0', UBSAN_OPTIONS='print_stacktrace=1')
    rc, so, se = sh([exe, inp], timeout=60, env=env)
    open(os.path.join(outdir, 'output.txt'), 'w').write('exit=%s\n--- stdout\n%s\n--- stderr\n%s\n' % (rc, so[-6000:], se[-6000:]))
    shutil.copy(exe, os.path.join(outdir, 'replay_exe')) if os.path.exists(exe) else None
    if rc == 77:
        return False, 'assumption violated in replay (encoding mismatch)'
    if rc == 0:
        return False, 'did not reproduce natively'
    out = so + se
    last = out.strip().splitlines()[-1][:200] if out.strip() else ''
    if 'REPLAY-FAIL' in se or 'AddressSanitizer' in se or 'runtime error:' in se or 'LeakSanitizer' in se or rc < 0 or rc in (134, 136, 139):
        return True, 'reproduced natively: exit=%s %s' % (rc, last)
    return False, 'replay run failed for another reason (exit=%s %s)' % (rc, last)


def load_known(pid):
    path = os.path.join(VERIF, 'known_findings.txt')
    out = []
    if os.path.exists(path):
        for line in open(path):
            line = line.strip()
            if not line.startswith('finding:'):
                continue
            m = re.match(r'finding:\s+property=(\S+)\s+key=(\S+)\s*(.*)$', line)
            if m and m.group(1) == pid:
                out.append((m.group(2), m.group(3)))
    return out


def finding_key(job, f):
    return '%s::%s' % (job.name, re.sub(r'\s+', '_', f['description'].strip()))


def run_jobs(jobs, workers=None, progress=True):
    workers = workers or NCPU
    t0 = time.time()
    done = 0
    with ThreadPoolExecutor(max_workers=workers) as ex:
        futs = {ex.submit(run_one, j): j for j in jobs}
        for fu in as_completed(futs):
            j = futs[fu]
            try:
                fu.result()
            except Exception as e:
                j.status, j.detail = 'inconclusive', 'runner exception: %r' % e
            done += 1
            if progress:
                sys.stderr.write('[%4d/%d %6.1fs] %-12s %s %s\n' % (done, len(jobs), time.time() - t0, j.status, j.name,
                                                                    ('' if j.status == 'proved' else (j.detail or str(j.failed))[:300])))
                sys.stderr.flush()
    return jobs


def finish(pid, tier, level, jobs, meta, t0, custom_replay=None, extra_cov=None, extra_violations=None):
    """Classify results, replay counterexamples, write evidence, print verdict lines, return exit code."""
    known = load_known(pid)
    seed = int(os.environ.get('VERIF_SEED', '0') or 0)
    violations, known_hits, mismatches, unreplayed = [], [], [], []
    incon = [j for j in jobs if j.status in ('inconclusive', 'vacuous')]
    replays_root = os.path.join(VERIF, 'replays', pid)
    for j in jobs:
        if j.status != 'cex':
            continue
        unknown = []
        for f in j.failed:
            key = finding_key(j, f)
            hit = [k for k in known if fnmatch.fnmatch(key, k[0])]
            if hit:
                known_hits.append((hit[0], key))
            else:
                unknown.append((f, key))
        if not unknown:
            continue
        # replay the first unknown failure of this job (at most MAX_REPLAYS jobs per run; the rest are listed)
        if len(violations) + len(mismatches) >= MAX_REPLAYS:
            unreplayed.append((j, unknown))
            continue
        f, key = unknown[0]
        outdir = os.path.join(replays_root, re.sub(r'[^A-Za-z0-9_.-]', '_', j.name))
        shutil.rmtree(outdir, ignore_errors=True)
        os.makedirs(outdir, exist_ok=True)
        info = {'job': j.name, 'failed': [x[0] for x in unknown], 'keys': [x[1] for x in unknown], 'desc': j.desc}
        if j.replay == 'none' or j.smt:
            ok, why = True, 'no native replay defined for this harness family (solver counterexample reported as is)'
            inputs = get_trace_inputs(j, f['property']) if not j.smt else {}
        else:
            inputs = get_trace_inputs(j, f['property'])
            if inputs is None:
                ok, why = False, 'could not obtain trace'
            elif j.replay == 'custom' and custom_replay:
                ok, why = custom_replay(j, f, inputs, outdir)
            else:
                ok, why = native_replay(j, f['property'], inputs, outdir)
        info['inputs'] = inputs
        info['replay'] = why
        json.dump(info, open(os.path.join(outdir, 'counterexample.json'), 'w'), indent=1, default=str)
        if ok:
            violations.append((j, f, key, outdir, why))
        else:
            mismatches.append((j, f, key, outdir, why))
    for v in (extra_violations or []):
        # v = (name, failed-dict, key, outdir, why); known findings apply to these as well
        key = '%s::%s' % (v[0], re.sub(r'\s+', '_', v[1]['description'].strip()))
        hit = [k for k in known if fnmatch.fnmatch(key, k[0])]
        if hit: known_hits.append((hit[0], key))
        else: violations.append(v)

    proved = [j for j in jobs if j.status == 'proved']
    groups = {}
    for j in jobs:
        g = groups.setdefault(j.group or 'default', {'jobs': 0, 'proved': 0, 'cex': 0, 'inconclusive': 0, 'solver_s': 0.0})
        g['jobs'] += 1
        g['solver_s'] = round(g['solver_s'] + j.solver_s, 2)
        g['proved' if j.status == 'proved' else 'cex' if j.status == 'cex' else 'inconclusive'] += 1
    samples = []
    seen_groups = set()
    for j in jobs:
        if (j.group not in seen_groups) or j.status != 'proved':
            seen_groups.add(j.group)
            samples.append({'instance': j.name, 'group': j.group, 'shape': j.desc, 'verdict': j.status,
                            'properties_checked': j.nprops, 'witnesses_reached': j.witnesses,
                            'wall_s': round(j.wall, 2), 'failed': j.failed})
        if len(samples) >= 40:
            break
    cov = {
        'evaluations': len(jobs),
        'distinct_nontrivial': len({j.name for j in jobs if j.status in ('proved', 'cex') and (j.witnesses > 0 or j.smt or not j.expect_witness)}),
        'rule': 'one solver query (CBMC job) per concrete shape instance, payload symbolic; an instance is non-trivial '
                'when its reachability witness assertion was shown reachable by the solver (not vacuous)',
        'samples': samples,
        'queries': len(jobs),
        'discharged': len(proved),
        'counterexamples': len([j for j in jobs if j.status == 'cex']),
        'inconclusive': len(incon),
        'solver_properties_checked': sum(j.nprops for j in jobs),
        'witnesses_ok': sum(j.witnesses for j in jobs),
        'solver_time_s': round(sum(j.solver_s for j in jobs), 1),
        'peak_rss_mb': round(max([j.rss_mb for j in jobs] + [0]), 1),
        'groups': groups,
        'known_findings_matched': sorted({k[0][0] for k in known_hits}),
        'explanation': meta.get('explanation', ''),
        'functions_encoded': meta.get('functions_encoded', []),
        'bounds': meta.get('bounds', {}),
        'outside_claim': meta.get('outside', []),
        'stubs': meta.get('stubs', []),
        'backend': meta.get('backend', 'cbmc 6.11.0 SAT (default minisat2 / as given in flags); E4 jobs: z3 4.8.12 + cvc5 1.0 on exported SMT2'),
        'exhaustive': False,
    }
    if level == 'translation_validation':
        cov['programs'] = meta.get('programs', len(jobs))
        cov['disagreements_checked'] = len([j for j in jobs if j.status == 'cex'])
    if extra_cov:
        cov.update(extra_cov)
    ev = {'property_id': pid, 'tier': tier, 'seed': seed, 'level': level, 'coverage': cov,
          'assumptions': meta.get('assumptions', []), 'wall_s': round(time.time() - t0, 1),
          'violations': len(violations)}
    os.makedirs(os.path.join(VERIF, 'evidence'), exist_ok=True)
    json.dump(ev, open(os.path.join(VERIF, 'evidence', pid + '.json'), 'w'), indent=1, default=str)

    printed = set()
    for (k, key) in known_hits:
        if k[0] not in printed:
            printed.add(k[0])
            print('KNOWN-FINDING: property=%s %s (%s)' % (pid, k[1], k[0]))
    for j in incon:
        print('INCONCLUSIVE: property=%s job=%s %s' % (pid, j.name, (j.detail or '')[:400].replace('\n', ' | ')))
    for (j, f, key, outdir, why) in mismatches:
        print('ENCODING-MISMATCH: property=%s job=%s %s :: %s (%s)' % (pid, j.name, f['description'], why, outdir))
    for v in violations:
        j, f, key, outdir, why = v
        print('VIOLATION property=%s replay=%s' % (pid, outdir))
        print('  instance=%s failed="%s" at %s key=%s :: %s' % (getattr(j, 'name', j), f['description'], f.get('loc'), key, why))
    for (j, unknown) in unreplayed:
        print('ALSO-FAILED (not replayed, replay cap reached): property=%s job=%s %s' % (pid, j.name, [u[0]['description'] for u in unknown][:3]))
    print('SUMMARY property=%s tier=%s queries=%d proved=%d cex=%d known=%d inconclusive=%d violations=%d wall=%.0fs'
          % (pid, tier, len(jobs), len(proved), len([j for j in jobs if j.status == 'cex']), len(known_hits),
             len(incon), len(violations), time.time() - t0))
    if violations:
        return 1
    if incon or mismatches:
        return 2
    return 0


def tier_arg():
    t = os.environ.get('VERIF_TIER', 'quick')
    if '--tier' in sys.argv:
        t = sys.argv[sys.argv.index('--tier') + 1]
    return t
