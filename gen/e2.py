#!/usr/bin/env python3
"""E2: program-level translation validation (DESIGN.md 3.2).

For each program of a generated family: the real nanoc emits C (-S), the real nano_virt emits bytecode
(--emit-nvm); this module turns the .nvm into static C data plus a CFG-specialised single-step driver
(one C label per instruction offset, the real vm_core_execute executes every instruction under the fuel hook),
and a harness that runs both on symbolic arguments and compares return value and stdout piece trace.
"""
import os, re, struct, subprocess, sys, shutil
sys.path.insert(0, os.path.join(os.path.dirname(os.path.abspath(__file__)), '..', 'lib'))
from vlib import REPO, VERIF, scratch, sh

OPSZ = {'OPERAND_U8': (1, 'B'), 'OPERAND_U16': (2, 'H'), 'OPERAND_U32': (4, 'I'), 'OPERAND_I32': (4, 'i'), 'OPERAND_I64': (8, 'q'), 'OPERAND_F64': (8, 'Q')}


def isa_tables():
    hdr = open(os.path.join(REPO, 'src/nanoisa/isa.h')).read()
    m = re.search(r'typedef enum \{(.*?)\}\s*NanoOpcode;', hdr, re.S)
    val = {n: int(v, 0) for n, v in re.findall(r'\b(OP_[A-Z0-9_]+)\s*=\s*(0x[0-9A-Fa-f]+|\d+)', m.group(1)) if n != 'OP_COUNT'}
    src = open(os.path.join(REPO, 'src/nanoisa/isa.c')).read()
    tab = {}
    for m in re.finditer(r'INSTR\d\((OP_[A-Z0-9_]+),\s*"[^"]*"((?:,\s*OPERAND_[A-Z0-9]+)*)\)', src):
        tab[val[m.group(1)]] = (m.group(1), [x.strip() for x in m.group(2).split(',') if x.strip()])
    return val, tab


def build_tools():
    """Build nanoc_c and nano_virt from the CURRENT working tree of /repo in a scratch copy (removed with the scratch dir)."""
    d = os.path.join(scratch(), 'repo_build')
    if os.path.exists(os.path.join(d, 'bin', 'nano_virt')):
        return d
    os.makedirs(d, exist_ok=True)
    rc, so, se = sh(['rsync', '-a', '--exclude', '.git', '--exclude', 'obj', '--exclude', 'bin', '--exclude', 'build', REPO + '/', d + '/'], timeout=300)
    rc, so, se = sh(['make', '-f', 'Makefile.gnu', '-j16', 'nano_virt', 'bin/nanoc_c'], timeout=900, cwd=d)
    if rc != 0 or not os.path.exists(os.path.join(d, 'bin', 'nano_virt')):
        raise RuntimeError('building nanoc/nano_virt from the working tree failed:\n' + (so + se)[-2000:])
    return d


def parse_nvm(path):
    b = open(path, 'rb').read()
    assert b[:4] == b'NVM\x01', 'bad magic'
    ver, flags, entry, nsec, spo, spl, crc = struct.unpack_from('<7I', b, 4)
    mod = {'flags': flags, 'entry': entry, 'strings': [], 'code': b'', 'functions': [], 'imports': 0}
    for i in range(nsec):
        ty, off, sz = struct.unpack_from('<3I', b, 32 + 12 * i)
        sec = b[off:off + sz]
        if ty == 2:
            p = 0
            while p + 4 <= len(sec):
                ln = struct.unpack_from('<I', sec, p)[0]; p += 4
                mod['strings'].append(sec[p:p + ln]); p += ln
        elif ty == 1:
            mod['code'] += sec
        elif ty == 3:
            for p in range(0, len(sec) - 17, 18):
                name_idx, arity, coff, clen, lc, uc = struct.unpack_from('<IHIIHH', sec, p)
                mod['functions'].append({'name_idx': name_idx, 'arity': arity, 'off': coff, 'len': clen, 'locals': lc, 'upv': uc})
        elif ty == 8:
            mod['imports'] += 1
    for f in mod['functions']:
        f['name'] = mod['strings'][f['name_idx']].decode('latin1') if f['name_idx'] < len(mod['strings']) else '?'
    return mod


def decode_fn(mod, f, tab):
    code, out, pos, end = mod['code'], [], f['off'], f['off'] + f['len']
    while pos < end:
        opc = code[pos]
        if opc not in tab:
            raise ValueError('undefined opcode 0x%02x at %d' % (opc, pos))
        name, ops = tab[opc]
        p, vals = pos + 1, []
        for t in ops:
            sz, fmt = OPSZ[t]
            vals.append(struct.unpack_from('<' + fmt, code, p)[0]); p += sz
        out.append((pos, name, vals, p - pos))
        pos = p
    return out


UNSUPPORTED = {'OP_CALL_INDIRECT', 'OP_CLOSURE_CALL', 'OP_CLOSURE_NEW', 'OP_CALL_EXTERN', 'OP_CALL_MODULE'}


def cstr(bs):
    return '"' + ''.join('\\x%02x' % c for c in bs) + '"'


def nvm_to_c(mod, tab, prefix='e2'):
    """Static module data + CFG-specialised drivers. Returns (c_text, info)."""
    L = []
    code = mod['code']
    L.append('static uint8_t e2_code[%d] = {%s};' % (max(len(code), 1), ','.join(str(c) for c in code) or '0'))
    L.append('static NvmFunctionEntry e2_fns[%d] = {%s};' % (max(len(mod['functions']), 1), ','.join(
        '{%d,%d,%d,%d,%d,%d}' % (f['name_idx'], f['arity'], f['off'], f['len'], f['locals'], f['upv']) for f in mod['functions']) or '{0}'))
    for i, s in enumerate(mod['strings']):
        L.append('static char e2_s%d[%d] = %s;' % (i, len(s) + 1, cstr(s)))
    n = max(len(mod['strings']), 1)
    L.append('static char *e2_strs[%d] = {%s};' % (n, ','.join('e2_s%d' % i for i in range(len(mod['strings']))) or '0'))
    L.append('static uint32_t e2_slens[%d] = {%s};' % (n, ','.join(str(len(s)) for s in mod['strings']) or '0'))
    L.append('#define E2_NFUNC %d\n#define E2_NSTR %d\n#define E2_CODESZ %d\n#define E2_FLAGS %du\n#define E2_ENTRY %du' % (
        len(mod['functions']), len(mod['strings']), len(code), mod['flags'], mod['entry']))
    L.append('#include "e2_runtime.h"')
    unsupported = []
    for k, f in enumerate(mod['functions']):
        L.append('static void drv_fn%d(void);' % k)
    for k, f in enumerate(mod['functions']):
        ins = decode_fn(mod, f, tab)
        end = f['off'] + f['len']
        L.append('static void drv_fn%d(void) { /* %s */' % (k, f['name']))
        targets = set()
        for (off, name, vals, sz) in ins:
            if name in ('OP_JMP', 'OP_JMP_TRUE', 'OP_JMP_FALSE'): targets.add(off + vals[0])
            if name == 'OP_MATCH_TAG': targets.add(off + vals[1])
        for (off, name, vals, sz) in ins:
            if name in UNSUPPORTED: unsupported.append(name)
            lab = 'L_%d: ' % off if off in targets else ''
            L.append('  %sif (e2_step(%du)) return; /* %s %s */' % (lab, off, name, vals))
            if name == 'OP_JMP':
                L.append('  goto L_%d;' % (off + vals[0]))
            elif name in ('OP_JMP_TRUE', 'OP_JMP_FALSE'):
                L.append('  if (e2_vm.ip == %du) goto L_%d;' % (off + vals[0], off + vals[0]))
            elif name == 'OP_MATCH_TAG':
                L.append('  if (e2_vm.ip == %du) goto L_%d;' % (off + vals[1], off + vals[1]))
            elif name == 'OP_CALL':
                L.append('  drv_fn%d(); if (e2_err || e2_done) return;' % vals[0])
            elif name == 'OP_RET':
                L.append('  return;')
            elif name == 'OP_HALT':
                L.append('  e2_done = 1; return;')
        if end in targets:
            L.append('  L_%d: ;' % end)
        L.append('  e2_fell_off_end = 1; return;\n}')
    names = {f['name']: k for k, f in enumerate(mod['functions'])}
    maxins = max([len(decode_fn(mod, f, tab)) for f in mod['functions']] + [1])
    return '\n'.join(L) + '\n', {'functions': names, 'unsupported': sorted(set(unsupported)), 'imports': mod['imports'], 'max_instructions': maxins, 'nfunc': len(mod['functions']), 'code_size': len(mod['code']), 'max_locals': max([f['locals'] for f in mod['functions']] + [1])}


HARNESS_TMPL = r'''/* generated by gen/e2.py for program %(name)s */
#include "verif.h"
#include <stdlib.h>
static int g_native_exit;
#ifndef REPLAY
#include "fmt_trace.h"
void exit(int c) { (void)c; g_native_exit = 1; __CPROVER_assume(0); }
size_t strnlen(const char *s, size_t n) { size_t i = 0; while (i < n && s[i]) i++; return i; }   /* no CBMC library model */
#endif
int verif_abort_flag;
#define main nl_genc_main
#include "%(genc)s"
#undef main
#include "nanovm/vm.h"
#include "nanoisa/verifier.h"
#include "%(vmc)s"

void harness(void) {
%(decls)s
%(assumes)s
    g_tr = 0;
    %(native_call)s
    g_tr = 1;
    e2_setup();
    { NvmVerifyResult vr = nvm_verify(&e2_mod); __CPROVER_assert(vr.ok, "C04: the bytecode generated for an accepted program passes the verifier"); }
%(init_call)s
    { NanoValue args[%(nargs1)d]; static const NanoValue Z;
%(vm_args)s
      e2_enter(%(fidx)d, args, %(nargs)d); drv_fn%(fidx)d(); }
    __CPROVER_assert(!e2_fell_off_end, "driver: every function body ends in RET");
    __CPROVER_assert(e2_err == 0 || e2_err == VM_ERR_ASSERT_FAILED || e2_err == VM_ERR_OUT_OF_BOUNDS || e2_err == VM_ERR_CALL_DEPTH,
                     "C04: the VM run of an accepted program never ends in a type / undefined / decode / stack error");
    __CPROVER_assert(e2_err == 0, "C01: the VM run ends normally where the native run does");
    if (e2_err == 0) {
        NanoValue r = vm_get_result(&e2_vm);
#ifndef NO_RET_CHECK
%(ret_check)s
#else
        (void)r;
#endif
    }
    __CPROVER_assert(!g_trace[0].overflow && !g_trace[1].overflow, "HARNESS: output trace capacity");
    __CPROVER_assert(tr_equal(), "C01: native and NanoVM write the same output");
    __CPROVER_assert(0, "WITNESS: both backends ran to completion");
}
'''


def make_harness(prog, genc, vmc, info, outpath):
    decls, assumes, vmargs, callargs = [], [], [], []
    for i, (pn, pt, cons) in enumerate(prog['params']):
        if pt == 'int':
            decls.append('    ND(int64_t, in_%s);' % pn); callargs.append('in_%s' % pn)
            vmargs.append('      args[%d] = Z; args[%d].tag = TAG_INT; args[%d].as.i64 = in_%s;' % (i, i, i, pn))
        elif pt == 'bool':
            decls.append('    ND(uint8_t, in_%s); in_%s &= 1;' % (pn, pn)); callargs.append('(bool)in_%s' % pn)
            vmargs.append('      args[%d] = Z; args[%d].tag = TAG_BOOL; args[%d].as.boolean = (in_%s != 0);' % (i, i, i, pn))
        if cons:
            assumes.append('    ASSUME(%s);' % cons.replace('$', 'in_' + pn))
    fname = prog['entry']
    fidx = info['functions'][fname]
    rt = prog['ret']
    if rt == 'int':
        native = 'int64_t nat = nl_%s(%s);' % (fname, ', '.join(callargs))
        ret = '        __CPROVER_assert(r.tag == TAG_INT && r.as.i64 == nat, "C01: native and NanoVM return the same value");'
    elif rt == 'bool':
        native = 'bool nat = nl_%s(%s);' % (fname, ', '.join(callargs))
        ret = '        __CPROVER_assert(r.tag == TAG_BOOL && (r.as.boolean != 0) == (nat != 0), "C01: native and NanoVM return the same value");'
    else:
        native = 'nl_%s(%s);' % (fname, ', '.join(callargs)); ret = '        (void)r;'
    init = ''
    if '__init__' in info['functions']:
        k = info['functions']['__init__']
        init = '    { e2_enter(%d, 0, 0); drv_fn%d(); e2_vm.stack_size = 0; e2_vm.frame_count = 0; }' % (k, k)
        native = 'nl___init__globals();\n    ' + native if prog.get('native_init') else native
    txt = HARNESS_TMPL % {'name': prog['name'], 'genc': genc, 'vmc': vmc, 'decls': '\n'.join(decls), 'assumes': '\n'.join(assumes),
                          'native_call': native, 'init_call': init, 'nargs': len(prog['params']), 'nargs1': max(len(prog['params']), 1),
                          'vm_args': '\n'.join(vmargs), 'fidx': fidx, 'ret_check': ret}
    open(outpath, 'w').write(txt)


def compile_program(prog, tools, workdir, tab):
    """Run the real compilers on the program text. Returns dict(genc=..., vmc=..., info=..., accepted=bool, notes=[...])."""
    os.makedirs(workdir, exist_ok=True)
    src = os.path.join(workdir, prog['name'] + '.nano')
    open(src, 'w').write(prog['text'])
    env = dict(os.environ, TMPDIR=workdir)
    res = {'notes': [], 'accepted': False}
    rc, so, se = sh([os.path.join(tools, 'bin', 'nano_virt'), src, '--emit-nvm', '-o', src + '.nvm'], timeout=120, cwd=tools, env=env)
    res['virt_rc'] = rc
    if rc != 0 or not os.path.exists(src + '.nvm'):
        res['notes'].append('nano_virt rejected / failed: ' + (so + se)[-300:]); return res
    res['accepted'] = True
    rc, so, se = sh([os.path.join(tools, 'bin', 'nanoc_c'), src, '-o', src + '.bin', '-S'], timeout=300, cwd=tools, env=env)
    res['nanoc_rc'] = rc
    genc = src + '.genC'
    if not os.path.exists(genc):
        res['notes'].append('nanoc produced no generated C (rc=%s): %s' % (rc, (so + se)[-400:])); return res
    if rc != 0:
        res['notes'].append('nanoc exit %s: %s' % (rc, (so + se)[-400:]))
    mod = parse_nvm(src + '.nvm')
    ctext, info = nvm_to_c(mod, tab)
    vmc = src + '_vm.h'
    open(vmc, 'w').write(ctext)
    res.update({'genc': genc, 'vmc': vmc, 'info': info, 'src': src})
    return res
