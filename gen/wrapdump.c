/* Native helper: prints the C text that the repository's wrapper_gen.c emits for a module (the text of the
 * wrapper executable's main), so that the check can run that generated main symbolically. */
#include <stdio.h>
#include "nanovirt/wrapper_gen.c"
int main(void) {
    NvmModule *m = nvm_module_new();
    uint32_t a = nvm_add_string(m, "__init__", 8), b = nvm_add_string(m, "main", 4);
    NvmFunctionEntry f = {0}; f.name_idx = a; nvm_add_function(m, &f); f.name_idx = b; nvm_add_function(m, &f);
    uint8_t code[1] = {0}; nvm_append_code(m, code, 1);
    m->header.flags = NVM_FLAG_HAS_MAIN; m->header.entry_point = 1;
    uint32_t sz = 0; uint8_t *blob = nvm_serialize(m, &sz);
    return write_wrapper_c(stdout, m, blob, sz, NULL) ? 0 : 1;
}
